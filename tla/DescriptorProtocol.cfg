SPECIFICATION Spec
CONSTANTS
  Writers = {"w1", "w2"}
  Kinds = {"A", "B", "A2", "C", "NA", "NB", "NX", "G", "GB"}
INVARIANTS DecodedRight RegistriesAgree
CHECK_DEADLOCK FALSE
