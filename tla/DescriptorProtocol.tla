---------------------------- MODULE DescriptorProtocol ----------------------------
(* Model of how a flow.record stream writer announces record descriptors, and of the  *)
(* registry a reader builds from the announcements.  One Write(w, k) step = one call   *)
(* of writer.write(record of kind k).  `last` holds the frames that step put on the    *)
(* wire; the conformance replayer (checks/c03.py) executes every edge of TLC's state   *)
(* graph on real RecordStreamWriter objects and compares the frames with `last`.       *)
EXTENDS Naturals, Sequences, FiniteSets

CONSTANTS Writers, Kinds

Descs == {"A", "B", "A2", "C", "HA", "HX", "X"}
None  == "none"

(* descriptor identifier = (name, hash): A and B are two different descriptors whose identifiers coincide *)
Ident(d) == CASE d = "A"  -> 1 [] d = "B"  -> 1 [] d = "A2" -> 2 [] d = "C" -> 3
              [] d = "HA" -> 4 [] d = "HX" -> 5 [] d = "X"  -> 6
Idents == 1..6

(* descriptors a record kind needs, in the order the packer meets them (outer first, then nested / members) *)
Needs(k) == CASE k = "A"  -> <<"A">>       [] k = "B"   -> <<"B">>       [] k = "A2"  -> <<"A2">>     [] k = "C" -> <<"C">>
              [] k = "NA" -> <<"HA", "A">> [] k = "NB"  -> <<"HA", "B">> [] k = "NX"  -> <<"HX", "X">>
              [] k = "G"  -> <<"A", "C">>  [] k = "GB"  -> <<"B", "C">>  [] k = "GAB" -> <<"A", "B">>

VARIABLES wreg,   \* wreg[w][i]: descriptor the writer's packer holds for identifier i
          rreg,   \* rreg[w][i]: descriptor a reader of w's stream holds for identifier i
          last,   \* frames emitted by the last step
          bad     \* some record was written while the reader maps one of its identifiers to another descriptor

vars == <<wreg, rreg, last, bad>>

Init == /\ wreg = [w \in Writers |-> [i \in Idents |-> None]]
        /\ rreg = [w \in Writers |-> [i \in Idents |-> None]]
        /\ last = <<>>
        /\ bad = FALSE

(* announce descriptor d unless the packer already holds exactly d under its identifier *)
One(st, d) == IF st.reg[Ident(d)] = d
              THEN st
              ELSE [reg |-> [st.reg EXCEPT ![Ident(d)] = d], out |-> Append(st.out, <<"D", d>>)]

Announce(reg, ds) == LET s0 == [reg |-> reg, out |-> <<>>]
                         s1 == One(s0, ds[1])
                     IN  IF Len(ds) = 1 THEN s1 ELSE One(s1, ds[2])

Write(w, k) ==
    LET a == Announce(wreg[w], Needs(k))
        (* the reader applies the descriptor frames in order: last announcement per identifier wins *)
        r == [i \in Idents |-> IF \E j \in 1..Len(a.out) : Ident(a.out[j][2]) = i
                               THEN a.out[CHOOSE j \in 1..Len(a.out) : /\ Ident(a.out[j][2]) = i
                                                                        /\ \A m \in 1..Len(a.out) : Ident(a.out[m][2]) = i => m <= j][2]
                               ELSE rreg[w][i]]
    IN  /\ wreg' = [wreg EXCEPT ![w] = a.reg]
        /\ rreg' = [rreg EXCEPT ![w] = r]
        /\ last' = Append(a.out, <<"R", k>>)
        /\ bad'  = (bad \/ \E j \in 1..Len(Needs(k)) : r[Ident(Needs(k)[j])] # Needs(k)[j])

Next == \E w \in Writers, k \in Kinds : Write(w, k)

Spec == Init /\ [][Next]_vars

(* every record is decoded with the descriptor it was written with *)
DecodedRight == bad = FALSE

(* the writer and the reader of one stream agree on the registry *)
RegistriesAgree == \A w \in Writers : wreg[w] = rreg[w]
====================================================================================
