SPECIFICATION Spec
CONSTANTS
  Writers = {"w1"}
  Kinds = {"A", "B", "C", "GAB"}
INVARIANTS DecodedRight
CHECK_DEADLOCK FALSE
