"""C15 — record composition follows the documented precedence rules (ordered-dict reference models)."""
from __future__ import annotations

import itertools

from mc import lit, recs
from mc.obs import obs
from mc.recs import rs
from mc.report import Run, jhash
from mc.space import explore

PROP = "C15"
RULE = ("(merge) all ordered pairs (triples over a smaller pool) of records over descriptors built from a field-name pool with "
        "overlapping names and differing types x replace x rename, cold and warm caches; (ts) all descriptors of 0..4 fields over "
        "{ts, ts_description, a, d1, d2} x {datetime, string} in every order incl. None timestamps; (group) all groups of 1..3 over 4 "
        "descriptors with overlapping names, nested groups, reads / routed writes / _asdict / _replace; (proj) _replace, init_from_dict, "
        "init_from_record, extend over all field subsets; (rewrite) every ordered fields list x exclude set incl. unknown and metadata "
        "names, with descriptor pairs that share a name. Reference: ordered-dict models. non-trivial = at least one field involved")

TYPES = ["string", "varint", "datetime"]


def val_spec(t, rec_i, f_i):
    if t == "string":
        return "'r%df%d'" % (rec_i, f_i)
    if t == "varint":
        return str(100 * (rec_i + 1) + f_i)
    return "dt(2020,1,%d,%d,0,0,tz=UTC)" % (rec_i + 1, f_i + 1)


def desc_pool(names, maxlen):
    out = []
    for k in range(0, maxlen + 1):
        for sel in itertools.permutations(names, k):
            for ts in itertools.product(TYPES, repeat=k):
                out.append([[t, n] for t, n in zip(ts, sel)])
    return out


def mk(name, fields, rec_i, source):
    return rs(name, fields, [val_spec(t, rec_i, i) for i, (t, _) in enumerate(fields)], _source="'%s'" % source)


def cases(tier, seed):
    thorough = tier == "thorough"
    # (1) merge / extend
    pool2 = desc_pool(["a", "b", "c"] if thorough else ["a", "b"], 2)
    for d1, d2 in itertools.product(pool2, repeat=2):
        for replace in (False, True):
            for name in (None, "x/renamed"):
                yield {"kind": "merge", "recs": [mk("m/one", d1, 0, "s0"), mk("m/two", d2, 1, "s1")], "replace": replace, "name": name}
    pool3 = [p for p in desc_pool(["a", "b"], 2) if all(t in ("string", "varint") for t, _ in p)]
    for d1, d2, d3 in itertools.product(pool3, repeat=3):
        for replace in (False, True):
            yield {"kind": "merge", "recs": [mk("m/one", d1, 0, "s0"), mk("m/two", d2, 1, "s1"), mk("m/three", d3, 2, "s2")], "replace": replace, "name": None}
    # longer chains (4 .. 9 inputs) with recurring field names: precedence is first-wins / last-wins whatever the number of inputs
    for nrec in (4, 5, 6, 9) + ((17, 33) if thorough else ()):
        for off in range(len(pool3)):
            for step in (1, 2, 3):
                for replace in (False, True):
                    yield {"kind": "merge", "recs": [mk("m/r%d" % i, pool3[(off + i * step) % len(pool3)] + [["varint", "only%d" % i]], i, "s%d" % i) for i in range(nrec)],
                           "replace": replace, "name": None if step != 2 else "x/renamed"}
    # the same descriptor more than once among the inputs (an updated copy of a record merged over the old one)
    for d1 in pool2[:10]:
        for d2 in pool2[:6]:
            for replace in (False, True):
                yield {"kind": "merge", "recs": [mk("m/one", d1, 0, "s0"), mk("m/one", d1, 1, "s1")], "replace": replace, "name": None}
                yield {"kind": "merge", "recs": [mk("m/one", d1, 0, "s0"), mk("m/two", d2, 1, "s1"), mk("m/one", d1, 2, "s2")], "replace": replace, "name": "x/renamed"}
                yield {"kind": "merge", "recs": [mk("m/two", d2, 0, "s0"), mk("m/one", d1, 1, "s1"), mk("m/one", d1, 2, "s2")], "replace": replace, "name": None}
    # grouped records as inputs of a merge: first, in the middle, last
    GM = {"group": "m/grp", "members": [mk("m/ga", [["string", "a"], ["varint", "n"]], 3, "sg1"), mk("m/gb", [["string", "b"], ["datetime", "t"], ["string", "a"]], 4, "sg2")]}
    for other in pool2[:12]:
        for replace in (False, True):
            yield {"kind": "merge", "recs": [GM, mk("m/two", other, 1, "s1")], "replace": replace, "name": None}
            yield {"kind": "merge", "recs": [mk("m/one", other, 0, "s0"), GM], "replace": replace, "name": "x/renamed"}
            yield {"kind": "merge", "recs": [mk("m/one", other, 0, "s0"), GM, mk("m/three", other, 2, "s2")], "replace": replace, "name": None}
    # (2) timestamp expansion
    names = ["ts", "ts_description", "a", "d1", "d2"]
    for k in range(0, 5 if thorough else 4):
        for sel in itertools.permutations(names, k):
            for ts in itertools.product(["datetime", "string"], repeat=k):
                fields = [[t, n] for t, n in zip(ts, sel)]
                yield {"kind": "ts", "rec": mk("t/rec", fields, 0, "src"), "none": None}
                if k <= 2:
                    for pre in ("get_all_fields", "grouped", "definition"):
                        yield {"kind": "ts", "rec": mk("t/pre%d" % len(fields), fields, 0, "src"), "none": None, "prelude": pre}
                dts = [i for i, (t, _) in enumerate(fields) if t == "datetime"]
                if dts:
                    r = mk("t/rec", fields, 0, "src")
                    r["values"][dts[0]] = "None"
                    yield {"kind": "ts", "rec": r, "none": dts[0]}
    for v1, v2 in itertools.product(["dt(1601,1,1,0,0,0,1,tz=UTC)", "dt(9999,12,31,23,59,59,999999,tz=UTC)", "dt(2500,6,1,1,2,3,123457,tz=off(5,30))", "dt(1,1,1,0,0,0,7,tz=UTC)",
                                     "dt(1969,12,31,23,59,59,999999,tz=off(1,2,3))", "dt(2020,10,25,2,30,0,5,tz=Z('Europe/Amsterdam'),fold=1)"], repeat=2):
        yield {"kind": "ts", "rec": rs("t/far", [["datetime", "d1"], ["string", "a"], ["datetime", "d2"]], [v1, "'x'", v2], _source="'far'"), "none": None}
    # (3) grouped records
    G = {
        "P": [["string", "a"], ["varint", "n"]],
        "Q": [["string", "a"], ["string", "b"]],
        "R": [["varint", "n"], ["datetime", "t"]],
        "S": [["string", "z"]],
    }
    keys = list(G)
    for k in (1, 2, 3):
        for sel in itertools.product(keys, repeat=k):
            yield {"kind": "group", "members": [mk("g/%s" % s.lower(), G[s], i, "gs%d" % i) for i, s in enumerate(sel)], "nested": False}
    for sel in itertools.product(keys, repeat=3):
        yield {"kind": "group", "members": [mk("g/%s" % s.lower(), G[s], i, "gs%d" % i) for i, s in enumerate(sel)], "nested": True}
    # (4) projections / replace-style copies
    base = [["string", "a"], ["varint", "n"], ["datetime", "t"]]
    for k in range(0, 4):
        for sub in itertools.combinations(["a", "n", "t", "_source", "zz"], k):
            yield {"kind": "proj", "rec": mk("p/rec", base, 0, "ps"), "names": list(sub)}
            if sub and "zz" not in sub:
                yield {"kind": "proj", "rec": mk("p/rec", base, 0, "ps"), "names": list(sub), "falsy": True}
    # (5) field rewriter
    alln = ["a", "n", "t", "zz", "_source"]
    fields_lists = [[]] + [list(p) for k in (1, 2, 3) for p in itertools.permutations(alln, k)]
    excl_sets = [[]] + [list(c) for k in (1, 2) for c in itertools.combinations(alln, k)]
    for fl in fields_lists:
        for ex in excl_sets:
            if len(fl) == 3 and len(ex) == 2 and not thorough:
                continue
            yield {"kind": "rewrite", "fields": fl, "exclude": ex}
    for fl in ([], ["Path"], ["PID"], ["pid"], ["pid", "PID"], ["PID", "Path", "pid"], ["path"], [" pid"]):
        for ex in ([], ["PID"], ["pid"], ["Path"], ["path"]):
            yield {"kind": "rewrite", "fields": fl, "exclude": ex, "mixedcase": True}
    for expr in REWRITE_EXPRS:
        for k in (1, 2, 3):
            for seq in itertools.product(["D", "D1", "D2", "E", "D3", "D4"], repeat=k):
                for fl, ex in (([], []), (["a"], []), ([], ["n"])):
                    yield {"kind": "rewrite", "fields": fl, "exclude": ex, "expr": expr, "seq": list(seq)}


def expected_record(name, fields, values, meta):
    """Build the record the model predicts (through the public constructor) and observe it."""
    d = recs.descriptor(name, fields)
    kw = {n: values[n] for _, n in fields}
    kw.update(meta)
    return obs(d.recordType(**kw))


def run_case(case):
    return {"merge": run_merge, "ts": run_ts, "group": run_group, "proj": run_proj, "rewrite": run_rewrite}[case["kind"]](case)


def clear_caches():
    from flow.record import base

    for fn in (base.merge_record_descriptors, base._generate_record_class, base.fieldtype):
        try:
            fn.cache_clear()
        except AttributeError:
            pass


def run_merge(case):
    from flow.record import extend_record

    h = jhash(case)
    viol = []
    outs = []
    for temp in ("warm", "cold"):
        if temp == "cold":
            clear_caches()
            recs._DESC_CACHE.clear()
        records = [recs.build_record(r) for r in case["recs"]]
        before = [obs(r) for r in records]
        replace, name = case["replace"], case["name"]
        # reference model
        order = []
        ftype = {}
        fval = {}
        for r, spec in zip(records, case["recs"]):
            # (a grouped record takes part through its flat view, which the group leg judges on its own)
            for t, n in (spec["fields"] if "fields" in spec else [list(x) for x in r._desc.get_field_tuples()]):
                if n not in ftype:
                    order.append(n)
                    ftype[n] = t
                    fval[n] = getattr(r, n)
                elif replace:
                    ftype[n] = t
                    fval[n] = getattr(r, n)
        src = records[-1] if replace else records[0]
        meta = {k: getattr(src, k) for k in ("_source", "_classification", "_generated")}
        want_name = name or records[0]._desc.name
        try:
            want = expected_record(want_name, [[ftype[n], n] for n in order], fval, meta)
        except Exception as e:  # noqa: BLE001  the model's own combination is not constructible
            return {"ev": 1, "h": h, "nt": False, "out": "model-unconstructible:" + type(e).__name__}
        forms = {"list": lambda xs: list(xs), "tuple": lambda xs: tuple(xs), "generator": lambda xs: (x for x in xs), "iter": lambda xs: iter(list(xs))}
        for form, mk_ in forms.items():
            suffix = "" if form == "list" else ":other_records-as-" + form
            try:
                out = extend_record(records[0], mk_(records[1:]), replace=replace, name=name)
                got = obs(out)
                d = recs.locate(want, got)
                if d:
                    viol.append(("C15:merge:%s:%s:%s%s" % ("replace" if replace else "keep", "n=%d" % len(records), d[2] if d[0] not in ("<fields>", "<name>") else d[0], suffix), case,
                                 {"where": d[0], "diff": d[2], "want_fields": want[2], "got_fields": got[2], "cache": temp}))
                    outs.append("diff")
                else:
                    outs.append("ok")
            except Exception as e:  # noqa: BLE001
                viol.append(("C15:merge:raises-%s:%s%s" % (type(e).__name__, "replace" if replace else "keep", suffix), case, {"error": repr(e)[:200], "cache": temp}))
                outs.append("raise")
        if [obs(r) for r in records] != before:
            viol.append(("C15:merge:original-modified", case, {}))
    if len(set(outs)) > 1:
        viol.append(("C15:merge:cold-warm-differ", case, {"outs": outs}))
    seen = set()
    v2 = [v for v in viol if not (v[0] in seen or seen.add(v[0]))]
    return {"ev": 2, "h": h, "nt": any(r.get("fields") or r.get("members") for r in case["recs"]), "out": "merge:" + "/".join(sorted(set(outs))), "viol": v2,
            "sample": case if int(h, 16) % 1999 == 0 else None}


def run_ts(case):
    from flow.record import iter_timestamped_records

    h = jhash(case)
    viol = []
    rec = recs.build_record(case["rec"])
    before = obs(rec)
    fields = case["rec"]["fields"]
    dts = [n for t, n in fields if t == "datetime"]
    # things other code does with the record's descriptor before the expansion (a grouped view, a definition dump, a writer)
    from flow.record import GroupedRecord as _G

    pre = case.get("prelude")
    if pre == "get_all_fields":
        rec._desc.get_all_fields()
    elif pre == "grouped":
        _G("t/g", [rec])
    elif pre == "definition":
        rec._desc.definition()
    if [n for n in rec._desc.fields] != [n for _, n in fields]:
        viol.append(("C15:ts:descriptor-fields-changed-by-%s" % pre, case, {"fields": list(rec._desc.fields)}))
    try:
        outs = list(iter_timestamped_records(rec))
    except Exception as e:  # noqa: BLE001
        clash = [n for _, n in fields if n in ("ts", "ts_description")]
        viol.append(("C15:ts:raises-%s:%s" % (type(e).__name__, "clash-" + "+".join(sorted(clash)) if clash else "plain"), case, {"error": repr(e)[:200]}))
        return {"ev": 1, "h": h, "nt": True, "out": "ts:raise", "viol": viol}
    if not dts:
        if len(outs) != 1 or obs(outs[0]) != before:
            viol.append(("C15:ts:no-datetime-field-not-identity", case, {"count": len(outs)}))
    else:
        if len(outs) != len(dts):
            viol.append(("C15:ts:count:%d-for-%d%s" % (len(outs), len(dts), ":none-valued" if case["none"] is not None else ""), case, {}))
        for f, o in zip(dts, outs):
            oo = obs(o)
            slots = dict((k, v) for k, v in oo[3])
            orig = dict((k, v) for k, v in before[3])
            cls = "later-field" if dts.index(f) > 0 else "first-field"
            if oo[1] != before[1]:
                viol.append(("C15:ts:type-name-changed", case, {"got": oo[1]}))
            if slots.get("ts") != orig[f]:
                viol.append(("C15:ts:ts-value-wrong:%s:%s" % (cls, "field-named-ts-present" if "ts" in [n for _, n in fields] else "plain"), case,
                             {"field": f, "got": slots.get("ts"), "want": orig[f]}))
            if slots.get("ts_description") != ["str", "ft.string", f]:
                viol.append(("C15:ts:ts_description-wrong:%s" % cls, case, {"field": f, "got": slots.get("ts_description")}))
            for t, n in fields:
                if n in ("ts", "ts_description"):
                    continue
                if slots.get(n) != orig[n]:
                    viol.append(("C15:ts:original-field-changed:%s" % cls, case, {"field": n, "got": slots.get(n), "want": orig[n]}))
                    break
            if [ft for ft, fn in oo[2] if fn == "ts"] != ["datetime"]:
                viol.append(("C15:ts:ts-field-type", case, {"fields": oo[2]}))
    if obs(rec) != before:
        viol.append(("C15:ts:original-modified", case, {}))
    seen = set()
    v2 = [v for v in viol if not (v[0] in seen or seen.add(v[0]))]
    return {"ev": 1, "h": h, "nt": bool(dts), "out": "ts:%d:%s" % (len(dts), "ok" if not v2 else "bad"), "viol": v2, "sample": case if int(h, 16) % 997 == 0 else None}


def run_group(case):
    from flow.record import GroupedRecord

    h = jhash(case)
    viol = []
    members = [recs.build_record(m) for m in case["members"]]
    if case["nested"] and len(members) == 3:
        g = GroupedRecord("g/outer", [GroupedRecord("g/inner", members[:2]), members[2]])
        gname = "g/outer"
    else:
        g = GroupedRecord("g/grp", members)
        gname = "g/grp"
    # model: union of fields in member order, first member wins
    owner = {}
    order = []
    for m, spec in zip(members, case["members"]):
        for t, n in spec["fields"]:
            if n not in owner:
                owner[n] = m
                order.append((t, n))
    try:
        if [tuple(x) for x in g._desc.get_field_tuples()] != order:
            viol.append(("C15:group:flat-fields", case, {"got": [list(x) for x in g._desc.get_field_tuples()], "want": order}))
        if g._desc.name != gname:
            viol.append(("C15:group:name", case, {}))
        for t, n in order:
            if obs(getattr(g, n)) != obs(getattr(owner[n], n)):
                viol.append(("C15:group:read-not-first-member", case, {"field": n}))
        ad = g._asdict()
        if [k for k in ad if not k.startswith("_")] != [n for _, n in order]:
            viol.append(("C15:group:asdict-keys", case, {"keys": list(ad)}))
        names = [n for _, n in order]
        for fl, ex in (((names[::-1], None), (names[:1], names[:1]), (None, names[-1:]), (names + ["zz"], ["_source"]), (names, names[1:]))):
            got = list(g._asdict(fields=fl, exclude=ex))
            base = fl if fl else list(g.fieldname_to_record.keys())
            want = [k for k in base if k in g.fieldname_to_record and not (ex and k in ex)]
            if got != want:
                viol.append(("C15:group:asdict-fields-exclude:%s" % ("fields+exclude" if fl and ex else "fields" if fl else "exclude"), case,
                             {"fields": fl, "exclude": ex, "got": got, "want": want}))
        # the group is a VIEW on its members: after a field was read through the group, a value assigned to the member itself is what
        # the group shows next (attribute, _asdict) - and what it serialises
        direct = {"string": "member-assigned", "varint": 777, "datetime": lit.ev("dt(2022,2,2,tz=UTC)")}
        for t, n in order:
            getattr(g, n), g._asdict()
            setattr(owner[n], n, direct[t])
            want_v = obs(getattr(owner[n], n))
            if obs(getattr(g, n)) != want_v or obs(g._asdict()[n]) != want_v or obs(getattr(g, n)) != want_v:
                viol.append(("C15:group:stale-after-member-assignment", case, {"field": n, "group_shows": repr(getattr(g, n))[:60], "member_holds": repr(getattr(owner[n], n))[:60]}))
                break
        for m in members:
            r = g.get_record_by_type(m._desc.name)
            first = next(x for x in members if x._desc.name == m._desc.name)
            if r is not first:
                viol.append(("C15:group:get_record_by_type", case, {}))
        # _replace changes only the named field (in every member that has it: the flat view exposes the first)
        if order:
            t, n = order[0]
            newv = {"string": "replaced", "varint": 4242, "datetime": lit.ev("dt(2021,2,3,tz=UTC)")}[t]
            before_members = [obs(m) for m in members]
            g2 = g._replace(**{n: newv})
            if obs(getattr(g2, n)) != obs(recs.descriptor("x/x", [[t, "v"]])(v=newv).v):
                viol.append(("C15:group:replace-not-applied", case, {"field": n}))
            for t2, n2 in order[1:]:
                if obs(getattr(g2, n2)) != obs(getattr(g, n2)):
                    viol.append(("C15:group:replace-changed-other-field", case, {"field": n2}))
                    break
            if [obs(m) for m in members] != before_members:
                viol.append(("C15:group:replace-modified-original", case, {}))
            # a replacement value that is falsy is a value like any other
            falsy = {"string": "", "varint": 0}
            if t in falsy:
                g3 = g._replace(**{n: falsy[t]})
                if obs(getattr(g3, n)) != obs(recs.descriptor("x/x", [[t, "v"]])(v=falsy[t]).v):
                    viol.append(("C15:group:replace-not-applied:falsy-value", case, {"field": n, "got": repr(getattr(g3, n))}))
            # the copy is a grouped record of its own: assigning any field of the copy reaches no member of the original
            later = {"string": "assigned-later", "varint": 31337, "datetime": lit.ev("dt(2031,2,3,tz=UTC)")}
            for t2, n2 in order:
                setattr(g2, n2, later[t2])
            if [obs(m) for m in members] != before_members:
                viol.append(("C15:group:replace-copy-shares-members-with-original", case, {"replaced": n}))
                return {"ev": 1, "h": h, "nt": True, "out": "group:bad", "viol": viol}
            # routed assignment: the first member that has the field receives the value
            setattr(g, n, newv)
            if obs(getattr(owner[n], n)) != obs(getattr(g, n)) or obs(getattr(g, n)) != obs(recs.descriptor("x/x", [[t, "v"]])(v=newv).v):
                viol.append(("C15:group:assignment-not-routed-to-first", case, {"field": n}))
            for m in members:
                if m is not owner[n] and n in m.__slots__ and obs(getattr(m, n)) == obs(getattr(g, n)):
                    viol.append(("C15:group:assignment-reached-later-member", case, {"field": n}))
    except Exception as e:  # noqa: BLE001
        viol.append(("C15:group:raises-%s" % type(e).__name__, case, {"error": repr(e)[:200]}))
    seen = set()
    v2 = [v for v in viol if not (v[0] in seen or seen.add(v[0]))]
    return {"ev": 1, "h": h, "nt": True, "out": "group:%s" % ("ok" if not v2 else "bad"), "viol": v2, "sample": case if int(h, 16) % 499 == 0 else None}


def run_proj(case):
    h = jhash(case)
    viol = []
    rec = recs.build_record(case["rec"])
    before = obs(rec)
    names = case["names"]
    newvals = {"a": "new-a", "n": 777, "t": lit.ev("dt(2022,3,4,tz=UTC)"), "_source": "new-src", "zz": "unknown"}
    if case.get("falsy"):
        newvals.update({"a": "", "n": 0, "_source": ""})
    kw = {k: newvals[k] for k in names}
    known = [k for k in names if k in rec.__slots__]
    # _replace
    try:
        out = rec._replace(**kw)
        if "zz" in names:
            viol.append(("C15:proj:replace-accepts-unknown-field", case, {}))
        else:
            for k in rec.__slots__:
                want = obs(recs.build_record(rs("p/x", [[t, n] for t, n in case["rec"]["fields"] if n == k] or [["string", "q"]], [])).__class__) if False else None
                got = getattr(out, k)
                exp = kw[k] if k in kw else getattr(rec, k)
                if obs(got) != obs(type(getattr(rec, k))(exp) if (k in kw and getattr(rec, k) is not None and not isinstance(exp, type(getattr(rec, k)))) else exp) and k != "_generated":
                    viol.append(("C15:proj:replace-field:%s" % ("named" if k in kw else "unnamed"), case, {"field": k, "got": obs(got)}))
                    break
            # the copy is a record of its own: assigning to it afterwards reaches nothing of the original (and the other way round)
            if "zz" not in names:
                for k, v2 in (("a", "assigned-later"), ("n", 31337)):
                    setattr(out, k, v2)
                if obs(rec) != before:
                    viol.append(("C15:proj:replace-copy-shares-state-with-original", case, {"named": names}))
                    for k in ("a", "n"):
                        setattr(rec, k, lit.ev(dict(zip([f[1] for f in case["rec"]["fields"]], case["rec"]["values"]))[k]))
    except ValueError:
        if "zz" not in names:
            viol.append(("C15:proj:replace-raises", case, {}))
    except Exception as e:  # noqa: BLE001
        viol.append(("C15:proj:replace-raises-%s" % type(e).__name__, case, {"error": repr(e)[:200]}))
    # init_from_dict / init_from_record
    d = rec._desc
    src = {k: getattr(rec, k) for k in rec.__slots__}
    src.update(kw)
    for raise_unknown in (False, True):
        try:
            out = d.init_from_dict(dict(src), raise_unknown=raise_unknown)
            if raise_unknown and "zz" in names:
                viol.append(("C15:proj:init_from_dict-unknown-not-raised", case, {}))
            for k in rec.__slots__:
                if k == "_version":
                    continue
                if obs(getattr(out, k)) != obs(getattr(d.recordType(**{kk: vv for kk, vv in src.items() if kk in rec.__slots__}), k)):
                    viol.append(("C15:proj:init_from_dict-field", case, {"field": k}))
                    break
        except TypeError:
            if not (raise_unknown and "zz" in names):
                viol.append(("C15:proj:init_from_dict-raises", case, {"raise_unknown": raise_unknown}))
    try:
        sub = recs.descriptor("p/sub", [[t, n] for t, n in case["rec"]["fields"] if n in names] + [["string", "fresh"]])
        out = sub.init_from_record(rec)
        for t, n in sub.get_field_tuples():
            want = getattr(rec, n) if n in rec.__slots__ else None
            if obs(getattr(out, n)) != obs(want):
                viol.append(("C15:proj:init_from_record-field", case, {"field": n}))
        if obs(out._source) != obs(rec._source):
            viol.append(("C15:proj:init_from_record-metadata", case, {}))
        ext = d.extend([("string", "added")])
        if [tuple(x) for x in ext.get_field_tuples()] != [tuple(x) for x in d.get_field_tuples()] + [("string", "added")] or ext.name != d.name:
            viol.append(("C15:proj:extend", case, {}))
    except Exception as e:  # noqa: BLE001
        viol.append(("C15:proj:raises-%s" % type(e).__name__, case, {"error": repr(e)[:200]}))
    # Record._asdict(fields, exclude): the selected fields in the order asked for, minus the excluded ones
    slots = list(rec.__slots__)
    for fl, ex in ((names, None), (None, names), (names[::-1], names[:1]), (slots[::-1], names), (names + ["zz"], ["_source"])):
        try:
            got = list(rec._asdict(fields=fl, exclude=ex))
            want = [k for k in (fl if fl else slots) if k in slots and not (ex and k in ex)]
            if got != want:
                viol.append(("C15:proj:asdict:%s" % ("fields+exclude" if fl and ex else "fields" if fl else "exclude"), case, {"fields": fl, "exclude": ex, "got": got, "want": want}))
        except Exception as e:  # noqa: BLE001
            viol.append(("C15:proj:asdict-raises-%s" % type(e).__name__, case, {}))
    if obs(rec) != before:
        viol.append(("C15:proj:original-modified", case, {}))
    seen = set()
    v2 = [v for v in viol if not (v[0] in seen or seen.add(v[0]))]
    return {"ev": 4, "h": h, "nt": bool(known), "out": "proj:%s" % ("ok" if not v2 else "bad"), "viol": v2}


REWRITE_EXPRS = ["extra = 1", "total = n + 1", "label = a.upper()", "if isinstance(n, int) and n > 4:\n    big = n", "a = 'overridden'", "x = 1\ny = x + n",
                 "try:\n    half = n / 2\nexcept TypeError:\n    pass", "if isinstance(a, str):\n    tag = a\nval = n + 1", "first = a\nsecond = n.upper()"]


def run_rewrite_expr(case):
    """A rewriter with an expression over a history of records (some make the expression raise, the caller carries on): every result
    must be what a fresh rewriter gives for that record alone."""
    from flow.record.stream import RecordFieldRewriter

    h = jhash(case)
    viol = []
    specs = {"D": rs("w/rec", [["string", "a"], ["varint", "n"]], ["'0404'", "5"]), "D1": rs("w/rec", [["varint", "a"], ["string", "n"]], ["404", "'five'"]),
             "D2": rs("w/rec", [["string", "a"], ["varint", "n"]], ["'aa'", "2"]), "E": rs("w/other", [["string", "a"]], ["'only-a'"]),
             "D3": rs("w/rec", [["string", "a"], ["string", "n"]], ["'tagged'", "'x'"]), "D4": rs("w/rec", [["varint", "a"], ["varint", "n"]], ["7", "1"])}
    rw = RecordFieldRewriter(list(case["fields"]), list(case["exclude"]), case["expr"])
    outs = []
    for label in case["seq"]:
        rec = recs.build_record(specs[label])
        before = obs(rec)

        def attempt(r_):
            try:
                return ["value", obs(r_.rewrite(rec))]
            except Exception as e:  # noqa: BLE001
                return ["raise", type(e).__name__]

        got = attempt(rw)
        want = attempt(RecordFieldRewriter(list(case["fields"]), list(case["exclude"]), case["expr"]))
        outs.append(got[0])
        if got != want:
            viol.append(("C15:rewrite:expression:history-dependent:%s" % ("after-raise" if "raise" in outs[:-1] else "plain"), case,
                         {"record": label, "with_history": got, "fresh_rewriter": want}))
            break
        if obs(rec) != before:
            viol.append(("C15:rewrite:expression:original-modified", case, {"record": label}))
            break
    return {"ev": len(case["seq"]), "h": h, "nt": True, "out": "rewrite-expr:" + "/".join(sorted(set(outs))), "viol": viol}


def run_rewrite(case):
    from flow.record.stream import RecordFieldRewriter

    if case.get("expr"):
        return run_rewrite_expr(case)

    h = jhash(case)
    viol = []
    fl, ex = case["fields"], case["exclude"]
    # one rewriter sees: D, then D' (same type name, same field names, other types), then D'' (same type name, other fields), then D again
    D = rs("w/rec", [["string", "a"], ["varint", "n"], ["datetime", "t"]], ["'0404'", "5", "dt(2020,1,1,tz=UTC)"], _source="'src'")
    D1 = rs("w/rec", [["varint", "a"], ["string", "n"], ["string", "t"]], ["404", "'five'", "'tee'"], _source="'src1'")
    D2 = rs("w/rec", [["string", "a"], ["string", "owner"], ["varint", "mode"]], ["'aa'", "'root'", "420"], _source="'src2'")
    rw = RecordFieldRewriter(list(fl), list(ex))
    outs = []
    if case.get("mixedcase"):
        D = rs("w/rec", [["string", "Path"], ["varint", "PID"], ["varint", "pid"]], ["'/P'", "1", "2"], _source="'src'")
        D1 = rs("w/rec", [["varint", "pid"], ["string", "Path"]], ["3", "'/Q'"], _source="'src1'")
        D2 = rs("w/rec", [["string", "path"], ["varint", "PID"]], ["'/lower'", "4"], _source="'src2'")
    GA = {"group": "w/grp", "members": [rs("w/p", [["string", "a"], ["varint", "n"]], ["'ga'", "1"]), rs("w/q", [["datetime", "t"]], ["dt(2020,1,1,tz=UTC)"])]}
    GB = {"group": "w/grp", "members": [rs("w/r", [["string", "owner"]], ["'gb'"]), rs("w/s", [["string", "a"], ["varint", "mode"]], ["'x'", "7"])]}
    # members that share field names: the flat view (and so the rewritten record) takes the FIRST member's value and metadata
    GC = {"group": "w/grp2", "members": [rs("w/p", [["string", "a"], ["varint", "n"]], ["'first'", "1"], _source="'src-first'"),
                                         rs("w/s", [["string", "a"], ["varint", "mode"]], ["'second'", "7"], _source="'src-second'")]}
    for label, spec in (("D", D), ("D1", D1), ("D2", D2), ("D", D), ("GA", GA), ("GB", GB), ("GA", GA), ("GC", GC)):
        rec = recs.build_record(spec)
        before = obs(rec)
        if "group" in spec:
            # a grouped record is rewritten through its flat view
            dfields = [[t, n] for t, n in rec._desc.get_field_tuples()]
            names = [n for _, n in dfields]
            keep = ([n for i, n in enumerate([x for x in fl if x not in ex and x in names]) if n not in [x for x in fl if x not in ex and x in names][:i]] if fl
                    else [n for n in names if n not in ex])
            try:
                out = rw.rewrite(rec)
                got_fields = [list(t) for t in out._desc.get_field_tuples()]
                tmap = {n: t for t, n in dfields}
                if got_fields != [[tmap[n], n] for n in keep]:
                    viol.append(("C15:rewrite:fields:%s:grouped" % label, case, {"got": got_fields, "want": [[tmap[n], n] for n in keep]}))
                else:
                    for n in keep + ["_source", "_classification", "_generated"]:
                        first_owner = next(m for m in rec.records if n in m.__slots__)
                        if obs(getattr(out, n)) != obs(getattr(first_owner, n)):
                            viol.append(("C15:rewrite:value-changed:%s:grouped:%s" % (label, "metadata" if n.startswith("_") else "field"), case,
                                         {"field": n, "got": repr(getattr(out, n))[:60], "first_member_has": repr(getattr(first_owner, n))[:60]}))
                            break
                outs.append("ok")
            except Exception as e:  # noqa: BLE001
                viol.append(("C15:rewrite:raises-%s:%s:grouped" % (type(e).__name__, label), case, {"error": repr(e)[:200]}))
            continue
        dfields = spec["fields"]
        names = [n for _, n in dfields]
        if fl:
            keep = [n for n in fl if n not in ex and n in names]
            # a name listed twice yields one field
            seen_n = []
            keep = [n for n in keep if not (n in seen_n or seen_n.append(n))]
        else:
            keep = [n for n in names if n not in ex]
        tmap = {n: t for t, n in dfields}
        try:
            out = rw.rewrite(rec)
        except Exception as e:  # noqa: BLE001
            viol.append(("C15:rewrite:raises-%s:%s" % (type(e).__name__, label), case, {"error": repr(e)[:200]}))
            outs.append("raise")
            continue
        oo = obs(out)
        want_fields = [[tmap[n], n] for n in keep]
        if oo[1] != "w/rec":
            viol.append(("C15:rewrite:type-name", case, {"got": oo[1]}))
        if oo[2] != want_fields:
            viol.append(("C15:rewrite:fields:%s:%s" % (label, "fields+exclude" if fl and ex else "fields" if fl else "exclude" if ex else "none"), case,
                         {"got": oo[2], "want": want_fields}))
            outs.append("fields-diff")
            continue
        got = dict((k, v) for k, v in oo[3])
        orig = dict((k, v) for k, v in before[3])
        for n in keep + ["_source", "_classification", "_generated"]:
            if got.get(n) != orig.get(n):
                viol.append(("C15:rewrite:value-changed:%s:%s" % (label, "metadata" if n.startswith("_") else "field"), case, {"field": n, "got": got.get(n), "want": orig.get(n)}))
                break
        if obs(rec) != before:
            viol.append(("C15:rewrite:original-modified", case, {}))
        outs.append("ok")
    seen = set()
    v2 = [v for v in viol if not (v[0] in seen or seen.add(v[0]))]
    return {"ev": 4, "h": h, "nt": bool(fl or ex), "out": "rewrite:" + "/".join(sorted(set(outs))), "viol": v2, "sample": case if int(h, 16) % 499 == 0 else None}


def main(tier, seed, workers=None):
    run = Run(PROP, "exploration", tier, seed, RULE)
    run.assumptions = ["expected records are built through the public constructor from the model's (name, fields, values)"]
    explore(run, cases(tier, seed), run_case, workers, chunk=32, reversed_pass=(tier == "thorough"))
    return run.finish(lambda case: [v[0] for v in run_case(case)["viol"]])
