"""C09 — the interpreted selector is a sandbox (hostile call/attribute shapes x contexts, instrumented canaries)."""
from __future__ import annotations

import ast
import builtins
import itertools
import os
import sys

from mc import refsel
from mc.obs import obs
from mc.report import Run, jhash
from mc.space import CaseTimeout, explore

PROP = "C09"
RULE = ("call-target spellings T (builtins, methods on fields/canaries/nested records, chains off call results / constants / operator "
        "expressions / displays, re-called results, lambdas, conditionals, generator variables, helper names reached as attributes, "
        "module attribute abuse, keyword/starred smuggling, dunder reads) x contexts C (x C again in thorough), all enumerated, on 3 "
        "records holding canary objects; an independent AST classifier labels programs refused/allowed; refused programs must "
        "raise with empty canary and builtin logs; every program must leave the record unchanged. non-trivial = labelled refused")

LOG = []
ARMED = [False]


def _log(what):
    if ARMED[0]:
        LOG.append(what)


T = [
    # builtins and unknown names
    "open('/dev/shm/c09-pwned', 'w')", "eval('1')", "exec('1')", "__import__('os')", "getattr(r, 's')", "print(1)", "type(r)", "vars(r)",
    "len(r.s)", "unknown_name(1)", "globals()", "dir(r)", "setattr(r, 'n', 5)", "delattr(r, 'n')", "iter(r.l)", "next(iter(r.l))",
    # methods on field values / canaries / nested records
    "r.s.upper()", "r.c.fire()", "r.sub.c.fire()", "r.l.copy()", "r.s.fire()", "r.l.append('x')", "r.l.clear()", "r.c.anything()",
    "r.sub._replace(n=9)", "r._replace(n=9)", "r._asdict()", "r.d.fire()",
    # attribute chain hanging off a call result
    "lower(r.s).upper()", "str(r.c).fire()", "net.ipaddress('::1').fire()", "lower(r.s).fire()", "str(r.s).upper()", "repr(r.s).upper()",
    "lower(r.c).fire()", "upper(r.s).lower()", "name(r).upper()", "names(r).clear()", "str(r.n).zfill(3)", "lower(r.l).append('x')",
    # off a constant
    "'abc'.upper()", "(1).bit_length()", "b''.hex()", "'a'.join(['b'])", "'{0.__class__}'.format(r)", "None.__class__",
    # off a parenthesised operator expression
    "(r.s + 'x').upper()", "(r.l * 2).count('a')", "(r.s + 'x').fire()", "(r.l + r.l).clear()", "(r.s * 2).upper()",
    # off a display
    "[r.c][0].fire()", "[r.c].copy()", "(r.c,).count(1)", "[r.l][0].clear()", "[r.l].pop().clear()",
    # a call result called again, calls on values
    "lower(r.s)()", "name(r)()", "r.c()", "r.c.fire()()", "lower(r.c)()", "r.s()", "str(r.c)()",
    # lambda / conditional
    "(lambda: r.c.fire())()", "(r.c.fire if True else 1)()", "(lambda x: x.fire())(r.c)",
    # generator variables bound to methods
    "any(f() for f in [r.c.fire])", "any(x.fire() for x in [r.c])", "any(lower() for lower in [r.c.fire])", "any(f() for f in [r.s.upper])",
    "any(any(g() for g in [f]) for f in [r.c.fire])", "all(x.clear() for x in [r.l])", "any(x.append('z') for x in [r.l])",
    "any(f() for f in (r.c.fire, r.c.fire))", "any(f.fire() for f in [r.c] for g in [1])", "any(g.fire() for f in [1] for g in [r.c])",
    # generator variables named like a whitelisted field type or module
    "any(string(1) for string in [r.c.fire])", "any(net.ipv4.Subnet(1) for net in [r.c])", "any(varint() for varint in [r.c.fire])",
    "any(net.ipaddress('1.1.1.1') for net in [r.c])", "any(path() for path in (r.c.fire,))", "all(digest() for digest in [r.s.upper])",
    "1 in (f() for f in [r.c.fire])", "1 not in (f() for f in [r.c.fire])",
    # no call syntax at all: typed matchers and attribute reads must not invoke what they find
    "Type.dynamic.fire == 1", "Type.dynamic.fire", "'x' in Type.dynamic.fire", "Type.string.upper == 'X'", "Type.string.fire != None", "1 in Type.dynamic.anything",
    "r.c.fire == 1", "r.c.fire", "r.s.upper == 'ABC'", "r.l.clear == None", "Type.dynamic.fire in [1, True]", "field_contains(r, Type.dynamic.fire, ['a'])",
    "str(Type.dynamic.fire)", "any(x == 1 for x in Type.dynamic)", "r.sub.c.fire == 1", "Type.dynamic.fire == r.c.fire",
    # whitelisted helper names reached as attributes
    "r.c.lower()", "'A'.lower()", "r.s.lower()", "r.c.name()", "r.c.str()", "r.s.upper.lower()", "r.c.any()", "r.c.field_contains()",
    "r.sub.c.lower()", "lower(r.s).lower()", "r.c.names()", "r.c.has_field('x')", "r.l.all()", "r.c.repr()",
    # whitelisted module attribute abuse
    "net.ipaddress.mro()", "net.__class__", "Type.string.__class__", "Type.__class__", "net.ipaddress.__init__", "net.ipv4.Subnet.__contains__",
    "net.ipaddress('1.1.1.1').__class__", "string.__mro__", "net.ipaddress.fire()", "string.lower('A')", "string.join('a', ['b'])",
    "varint.from_bytes(b'a', 'big')", "varint.bit_length(3)", "net.ipaddress._unpack(1)", "digest.default()", "path.from_windows('c:')",
    # keyword / starred smuggling
    "lower(*[r.c.fire()])", "field_contains(r, fields=r.c.fire(), strings=['a'])", "str(object=r.c.fire())", "lower(r.c.fire())",
    "field_contains(r, ['s'], [r.c.fire()])", "any([r.c.fire()])", "str(r.l.clear())", "field_equals(r, **{'fields': ['s'], 'strings': r.c.fire()})",
    # dunder attribute reads at every depth
    "r.__class__", "r.s.__class__", "lower.__globals__", "str.__subclasses__()", "r.c.__dict__", "r.sub.__class__", "r.__slots__",
    "any.__self__", "fields.__self__", "r.sub.c.__class__", "r.s.__class__.__mro__", "lower(r.s).__class__", "'a'.__class__", "(r.s + 'a').__class__",
    "[r.s].__class__", "r.c.fire.__self__", "r.__init__", "r.c.__getattr__", "name.__code__", "str.format('{0.__class__}', r)",
    "str.__dict__", "repr.__self__", "Type.string.__init__", "r._desc.__class__", "r._desc.recordType.__init__",
]

NAMESPACE_NAMES = ["fields", "str", "repr", "any", "all", "r", "Type", "lower", "upper", "name", "names", "get_type", "has_field", "field_contains",
                   "field_equals", "field_regex", "None", "True", "False", "rec", "self", "obj"]
# spellings the parser normalises (NFKC) to a dunder / a builtin name although the text holds no two adjacent ASCII underscores,
# and names that contain the text of a message the evaluator treats specially
T += ["r.c.\uff3f\uff3fclass\uff3f\uff3f", "r.c._\uff3fclass_\uff3f", "r.c.\uff3f_dict_\uff3f", "r.\uff3f\uff3fclass\uff3f\uff3f.x", "r.c._\uff3fclass_\uff3f._\uff3fdict_\uff3f",
      "\uff4f\uff50\uff45\uff4e('/dev/shm/c09-pwned', 'w')", "r.c.\uff46ire()", "\uff47etattr(r, 's')", "lower._\uff3fglobals_\uff3f", "r.c.fi\u00adre()",
      "NoneType()", "NoneType(1)", "r.c.NoneType(1)", "r.c.NoneType", "r.c.NoneType.fire()", "r.c.fire('NoneType')", "r.c.__class__ == 'NoneType'",
      "r.c.__dict__ == get_type(None)", "unknown_NoneType_name(1)", "str(r.c.fire()) == \"<class 'NoneType'>\""]
T += ["r.c.anything(lower(r.s))", "unknown_name(upper(r.s))", "eval(lower(r.s))", "r.c.fire(lower(r.s), upper(r.s))", "r.sub.c.fire(x=lower(r.s))", "r.l.append(lower(r.s))",
      "open(lower(r.s), 'w')", "r.c.fire(field_contains(r, ['s'], ['a']))", "(lambda: 1)(lower(r.s))", "r.s.zfill(lower(r.s))"]
for _nm in NAMESPACE_NAMES:
    T += ["any(%s('string') for %s in [r.c.fire])" % (_nm, _nm), "any(%s.fire() for %s in [r.c])" % (_nm, _nm),
          "any(any(%s() for _j in [1]) for %s in (r.c.fire,))" % (_nm, _nm)]
    # loop targets that unpack: flat, nested, list-shaped, starred
    T += ["any(%s('string') for _x, %s in [(1, r.c.fire)])" % (_nm, _nm), "any(%s('string') for _x, (%s, _y) in [(1, (r.c.fire, 2))])" % (_nm, _nm),
          "any(%s('string') for [%s] in [[r.c.fire]])" % (_nm, _nm), "any(%s[0]('string') for *%s, in [(r.c.fire,)])" % (_nm, _nm),
          "any(%s.fire() for (_x, [_y, (%s,)]) in [(1, [2, (r.c,)])])" % (_nm, _nm)]

CONTEXTS = {
    "bare": "%s", "cmp-l": "%s == 1", "cmp-r": "1 == %s", "and": "%s and True", "or": "%s or False", "not": "not %s", "binop": "%s + 1",
    "list": "[%s, 1] == 2", "tuple": "(%s,) == 2", "arg": "lower(%s)", "kwarg": "field_contains(r, ['s'], strings=%s)", "str": "str(%s)",
    "gen-elt": "any(%s for _i in [1])", "gen-if": "any(1 for _i in [1] if %s)", "gen-if2": "all(_i for _i in [1] if r.s == 'abc' if %s)", "gen-iter": "any(1 for _i in %s)", "attr-base": "(%s).foo", "in": "'a' in %s", "chain": "1 < %s < 3",
    "call-arg2": "field_equals(r, ['s'], [%s])", "and-r": "r.s == 'zz' and %s", "and-true": "r.s == 'abc' and %s", "or-l": "%s or True", "or-r": "r.s == 'zz' or %s",
    "or-nonetype": "%s or get_type(None) == \"<class 'NoneType'>\"", "and-none": "r.none and %s", "or-none": "r.none or %s",
}

ALLOWED_CALLS = {"lower", "upper", "name", "names", "get_type", "has_field", "field_contains", "field_equals", "field_regex", "str", "repr",
                 "any", "all", "fields"}


def classify(expr):
    """Independent of _eval: 'allowed' iff every call target is a whitelisted bare name or a dotted name spelling a whitelisted
    field-type constructor, there is no dunder attribute and no lambda. Anything that does not even parse is 'refused'."""
    try:
        tree = ast.parse(expr, mode="eval")
    except SyntaxError:
        return "refused"
    bound = {x.id for n in ast.walk(tree) if isinstance(n, ast.GeneratorExp) for g in n.generators for x in ast.walk(g.target) if isinstance(x, ast.Name)}
    for node in ast.walk(tree):
        if isinstance(node, ast.Lambda):
            return "refused"
        if isinstance(node, ast.Call):
            root = node.func
            while isinstance(root, ast.Attribute):
                root = root.value
            if isinstance(root, ast.Name) and root.id in bound:
                return "refused"  # the call target is (rooted at) a generator variable, whatever it is named
        if isinstance(node, ast.Attribute) and node.attr.startswith("__"):
            return "refused"
        if isinstance(node, ast.Name) and node.id.startswith("__"):
            return "refused"
        if isinstance(node, ast.Call):
            if isinstance(node.func, ast.Name):
                if node.func.id in ALLOWED_CALLS or node.func.id in refsel.TYPE_NAMES:
                    continue
                return "refused"
            p = refsel.call_path(node)
            if p is not None and p in refsel.TYPE_NAMES:
                continue
            return "refused"
    return "allowed"


_RECS = []
TRIP = "/dev/shm/c09-pwned"


def setup():
    if _RECS:
        return _RECS
    from flow.record import RecordDescriptor
    from flow.record import fieldtypes as ft
    from flow.record.base import FieldType

    class Canary(FieldType):
        def __init__(self, tag="c"):
            object.__setattr__(self, "tag", tag)

        def fire(self, *a, **k):
            _log("Canary.fire")
            try:
                open(TRIP + "-" + str(os.getpid()), "w").close()
            except OSError:
                pass
            return True

        def __call__(self, *a, **k):
            _log("Canary.__call__")
            return True

        def __getattr__(self, k):
            if k.startswith("__"):
                raise AttributeError(k)

            def method(*a, **kw):
                _log("Canary.%s" % k)
                return True

            return method

        def __iter__(self):
            return iter([self])

        def _pack(self):
            return "canary"

        def __repr__(self):
            return "<canary>"

    class CanaryStr(ft.string):
        def upper(self):
            _log("CanaryStr.upper")
            return "U"

        def lower(self):
            _log("CanaryStr.lower")
            return "l"

        def fire(self):
            _log("CanaryStr.fire")
            return "f"

        def zfill(self, n):
            _log("CanaryStr.zfill")
            return "z"

        def join(self, it):
            _log("CanaryStr.join")
            return "j"

        def format(self, *a, **k):
            _log("CanaryStr.format")
            return "fmt"

        def __add__(self, other):  # operators are allowed; keep the canary type through them
            return CanaryStr(str.__add__(self, other))

        def __mul__(self, n):
            return CanaryStr(str.__mul__(self, n))

    sub_d = RecordDescriptor("c9/sub", [("dynamic", "c"), ("varint", "n")])
    d = RecordDescriptor("c9/rec", [("dynamic", "c"), ("dynamic", "d"), ("string", "s"), ("varint", "n"), ("string[]", "l"), ("record", "sub")])
    import datetime

    gen = datetime.datetime(2020, 1, 1, tzinfo=datetime.timezone.utc)
    for i in range(3):
        sub = sub_d(c=Canary("sub"), n=i, _generated=gen)
        r = d(c=Canary("c"), d=Canary("d"), s=CanaryStr("abc"), n=i + 1, l=[CanaryStr("a"), CanaryStr("b")], sub=sub if i != 2 else None,
              _generated=gen)
        _RECS.append(r)
    # builtin tripwires (only logged while ARMED)
    # (getattr/len/iter/type are used pervasively by the interpreter and the library itself: an expression that gets to call
    #  them is still caught by the "must raise" half of the oracle)
    for nm in ("open", "eval", "exec", "__import__", "print", "vars", "dir", "globals"):
        orig = getattr(builtins, nm)
        if getattr(orig, "_c09", False):
            continue
        if nm == "type":
            continue  # a class, used pervasively by the interpreter machinery itself

        def mk(orig, nm):
            def wrapper(*a, **k):
                if ARMED[0] and _called_from_selector():
                    LOG.append("builtin." + nm)
                return orig(*a, **k)

            wrapper._c09 = True
            return wrapper

        setattr(builtins, nm, mk(orig, nm))
    return _RECS


def _called_from_selector():
    """A builtin counts as invoked by the expression only when the *direct* caller is the selector's call site
    (func(*args, **kwargs) in _eval), not when library code such as getattr(obj, attr, NONE_OBJECT) uses it."""
    f = sys._getframe(2)
    return f.f_code.co_name == "_eval" and "args" in f.f_locals and "kwargs" in f.f_locals and f.f_locals.get("func") is not None \
        and getattr(f.f_locals.get("func"), "_c09", False)


def run_case(case):
    from flow.record.selector import Selector

    if case.get("kind") == "pure":
        return run_pure(case)
    if case.get("kind") == "warm":
        return run_warm(case)
    expr = case["expr"]
    h = jhash(case)
    label = classify(expr)
    viol = []
    outs = []
    # "fresh": a new Selector per record; "reused": ONE Selector object matched on the three records twice over, so that whatever
    # the object remembers from an evaluation (also one that was refused) meets the next record
    shared = [None]
    plan = [("fresh", i, rec) for i, rec in enumerate(setup())]
    if case.get("door") != "explain":
        plan += [("reused", i, rec) for _ in (0, 1) for i, rec in enumerate(setup())]
    for mode, i, rec in plan:
        before = obs(rec)
        del LOG[:]
        raised = None
        ARMED[0] = True
        try:
            try:
                if case.get("door") == "explain":
                    Selector(expr).explain_selector(rec)
                elif mode == "fresh":
                    Selector(expr).match(rec)
                else:
                    if shared[0] is None:
                        shared[0] = Selector(expr)
                    shared[0].match(rec)
            except RecursionError:
                raise
            except (CaseTimeout, MemoryError):
                raise
            except BaseException as e:  # noqa: BLE001
                raised = e
        finally:
            ARMED[0] = False
        events = list(LOG)
        trip = os.path.exists(TRIP + "-" + str(os.getpid())) or os.path.exists(TRIP)
        for p in (TRIP + "-" + str(os.getpid()), TRIP):
            if os.path.exists(p):
                os.unlink(p)
        after = obs(rec)
        outs.append("%s:%s:%s" % (label, "raise" if raised is not None else "value", "EVENT" if events or trip else "quiet"))
        sig_t = case["t_class"] + (":explain" if case.get("door") == "explain" else "") + (":reused-selector" if mode == "reused" else "")
        if label == "allowed":
            # nothing but the whitelisted helpers' own string handling may run: no method of a field value is ever invoked
            foreign = [e for e in events if e not in ("CanaryStr.lower", "CanaryStr.upper")]
            if foreign or trip:
                viol.append(("C09:invoked-without-call-syntax:%s:%s" % (sig_t, (foreign or ["tripwire"])[0]), case, {"expr": expr, "events": events[:5], "record": i}))
        if label == "refused":
            if events or trip:
                viol.append(("C09:invoked:%s:%s" % (sig_t, (events or ["tripwire"])[0]), case, {"expr": expr, "events": events[:5], "record": i,
                                                                                           "raised": repr(raised)[:120]}))
            elif raised is None and case["ctx"] not in SHORT_CIRCUIT_OK:
                viol.append(("C09:not-refused:%s" % sig_t, case, {"expr": expr, "record": i}))
        if after != before:
            viol.append(("C09:record-modified:%s" % sig_t, case, {"expr": expr, "record": i}))
    seen = set()
    v2 = [v for v in viol if not (v[0] in seen or seen.add(v[0]))]
    return {"ev": len(plan), "h": h, "nt": label == "refused", "out": sorted(set(outs)), "viol": v2, "sample": case if int(h, 16) % 397 == 0 else None,
            "count": {"refused_programs": 1 if label == "refused" else 0, "allowed_programs": 1 if label == "allowed" else 0}}


SHORT_CIRCUIT_OK = {"and-r", "and-none", "and-true"}  # the left operand already decides: an engine may (like Python) never reach the target


def t_class(t):
    """Coarse class of a target spelling, for signatures."""
    try:
        tree = ast.parse(t, mode="eval")
    except SyntaxError:
        return "syntax"
    kinds = []
    for node in ast.walk(tree):
        if isinstance(node, ast.Lambda):
            kinds.append("lambda")
        if isinstance(node, ast.Attribute) and node.attr.startswith("__"):
            kinds.append("dunder")
        if isinstance(node, ast.Call):
            f = node.func
            if isinstance(f, ast.Name):
                if f.id not in ALLOWED_CALLS and f.id not in refsel.TYPE_NAMES:
                    kinds.append("name-call")
            elif isinstance(f, ast.Attribute):
                x = f
                while isinstance(x, ast.Attribute):
                    x = x.value
                if isinstance(x, ast.Name):
                    p = refsel.call_path(node)
                    if p not in refsel.TYPE_NAMES:
                        kinds.append("method-on-name" if f.attr not in ALLOWED_CALLS else "helper-named-method")
                else:
                    kinds.append("method-on-%s" % type(x).__name__ if f.attr not in ALLOWED_CALLS else "helper-named-method-on-%s" % type(x).__name__)
            else:
                kinds.append("call-on-%s" % type(f).__name__)
        if isinstance(node, ast.GeneratorExp):
            kinds.append("gen")
    out = []
    for k in kinds:
        if k not in out:
            out.append(k)
    return "+".join(out[:3]) or "plain"


PURE = [  # allowed programs: every helper on every kind of field; the record must come out unchanged
    "lower(r.m)", "upper(r.m)", "lower(r.ml)", "upper(r.ml)", "lower(r.ml) == ['alpha', 'beta']", "'alpha' in lower(r.ml)", "str(r.ml)", "repr(r.ml)",
    "field_contains(r, ['ml'], ['alpha'])", "field_equals(r, ['ml', 'm'], ['ALPHA'])", "field_contains(r, ['m', 'ml'], ['Be'], nocase=False)",
    "field_regex(r, ['m'], 'M.x')", "field_contains(r, ['m'], ['mix'], word_boundary=True)", "any(x == 'Alpha' for x in r.ml)", "all(lower(x) for x in r.ml)",
    "name(r)", "names(r)", "get_type(r.ml)", "has_field(r, 'ml')", "r.ml + ['x'] == 1", "r.ml * 2 == 1", "r.m + 'x' == 1", "r.ml == r.ml", "r.sub.ml == ['Q']",
    "field_contains(r, ['m'], r.ml)", "field_equals(r, ['m'], r.ml)", "field_contains(r, ['m'], r.sub.ml)", "field_equals(r, ['m', 'zz'], r.ml, nocase=True)",
    "field_contains(r, r.ml, r.ml)", "field_regex(r, r.ml, 'x')",
    "lower(r.sub.ml)", "upper(r.sub.m)", "field_contains(r.sub, ['ml'], ['q'])", "Type.string == 'MiX'", "'Mi' in Type.string", "field_equals(r, Type.string, ['mix'])",
    "any(lower(x) == 'beta' for x in r.ml) and any(upper(x) == 'ALPHA' for x in r.ml)", "fields('string')", "r.ml and r.m", "not r.ml", "r.n + 1 == 2",
    "net.ipaddress('1.2.3.4') == r.ml", "string('x') in r.ml", "r.ml in [r.ml]", "(r.ml, r.m) == 1", "[r.ml] == 1",
]
for _h in ("field_contains", "field_equals"):
    for _f in ("['m']", "['ml']", "['sl']", "['m', 'ml', 'sl']", "['sub']", "['n']", "Type.string", "Type.stringlist", "fields('string[]')", "['zz', 'sl']"):
        for _s in ("['alpha']", "['GAMMA', 'mix']", "r.sl", "[None]"):
            for _o in ("", ", nocase=True", ", nocase=False", ", word_boundary=True", ", word_boundary=False", ", nocase=True, word_boundary=True",
                       ", nocase=False, word_boundary=True"):
                if _h == "field_equals" and "word_boundary" in _o:
                    continue
                PURE.append("%s(r, %s, %s%s)" % (_h, _f, _s, _o))
for _f in ("['m']", "['ml']", "['sl']", "Type.stringlist", "['m', 'sl']"):
    for _o in ("", ", nocase=True", ", nocase=False"):
        PURE.append("field_regex(r, %s, 'G.mma|M.X'%s)" % (_f, _o))
_PURE_RECS = []


def pure_records():
    if not _PURE_RECS:
        from flow.record import RecordDescriptor
        import datetime

        gen = datetime.datetime(2020, 1, 1, tzinfo=datetime.timezone.utc)
        sd = RecordDescriptor("c9/psub", [("string", "m"), ("string[]", "ml")])
        d = RecordDescriptor("c9/pure", [("string", "m"), ("string[]", "ml"), ("varint", "n"), ("record", "sub"), ("stringlist", "sl")])
        _PURE_RECS.append(d(m="MiX", ml=["Alpha", "BETA"], n=1, sl=["Gamma", "DELTA mix"], sub=sd(m="Sub", ml=["Q"], _generated=gen), _generated=gen))
    return _PURE_RECS


def run_pure(case):
    from flow.record.selector import CompiledSelector, Selector

    h = jhash(case)
    viol = []
    outs = []
    for rec in pure_records():
        for en, cls in (("interpreted", Selector), ("compiled", CompiledSelector), ("explain", None)):
            before = obs(rec)
            try:
                if cls is None:
                    Selector(case["expr"]).explain_selector(rec)
                else:
                    cls(case["expr"]).match(rec)
                outs.append("pure:value")
            except RecursionError:
                raise
            except Exception:  # noqa: BLE001
                outs.append("pure:raise")
            if obs(rec) != before:
                viol.append(("C09:record-modified:%s:allowed-program" % en, case, {"expr": case["expr"], "before": before[3][:3], "after": obs(rec)[3][:3]}))
                _PURE_RECS[:] = []
                pure_records()
    return {"ev": 3, "h": h, "nt": True, "out": outs, "viol": viol, "count": {"purity_programs": 1}}


_WARM = []


def warm_record():
    """A record of the canary type on which the lazily reached parts of a program are never reached: no list elements, n == 0."""
    if not _WARM:
        base = setup()[0]
        _WARM.append(base._desc.recordType(c=base.c, d=base.d, s=base.s, n=0, l=[], sub=None, _generated=base._generated))
    return _WARM[0]


# the target sits where evaluation only gets to for some records: the element of a generator over a (here: empty) list field, the
# right-hand side of and / or, a generator condition, the tail of a comparison chain
LAZY = {"gen-over-field": "any(%s for _i in r.l)", "and-field": "r.n and %s", "or-field": "not r.n or %s", "gen-if-field": "any(1 for _i in r.l if %s)",
        "gen-over-field-cmp": "all(%s == 1 for _i in r.l)", "and-deep": "r.n > 0 and (r.s == 'abc' and (r.n >= 1 and %s))", "chain-tail": "0 < r.n < %s"}
# (chain-tail: on the warm record 0 < 0 is False and Python never evaluates the third operand)


def run_warm(case):
    """ONE Selector object is matched n times on a record that never gets to the target, then on records that do: the target is
    refused exactly as on the first evaluation (a selector that is promoted, cached or trusted after n quiet evaluations shows here)."""
    from flow.record.selector import Selector

    expr, n = case["expr"], case["n"]
    h = jhash(case)
    label = classify(expr)
    viol = []
    try:
        sel = Selector(expr)
    except RecursionError:
        raise
    except BaseException:  # noqa: BLE001  refused when it is parsed: nothing can be warmed up
        return {"ev": 1, "h": h, "nt": False, "out": ["warm:%s:refused-by-constructor" % label], "viol": []}
    warm = warm_record()
    quiet = 0
    del LOG[:]
    ARMED[0] = True
    try:
        for _ in range(n):
            try:
                sel.match(warm)
                quiet += 1
            except RecursionError:
                raise
            except (CaseTimeout, MemoryError):
                raise
            except BaseException:  # noqa: BLE001  (an engine may also refuse the program before it gets anywhere)
                pass
    finally:
        ARMED[0] = False
    if LOG:
        viol.append(("C09:invoked:warm-up:%s:%s" % (case["t_class"], LOG[0]), case, {"expr": expr, "events": LOG[:5]}))
    outs = ["warm:%s:%s" % (label, "quiet" if quiet == n else "refused-early" if quiet == 0 else "mixed")]
    for i, rec in enumerate(setup()):
        before = obs(rec)
        del LOG[:]
        raised = None
        ARMED[0] = True
        try:
            try:
                sel.match(rec)
            except RecursionError:
                raise
            except (CaseTimeout, MemoryError):
                raise
            except BaseException as e:  # noqa: BLE001
                raised = e
        finally:
            ARMED[0] = False
        events = list(LOG)
        trip = os.path.exists(TRIP + "-" + str(os.getpid())) or os.path.exists(TRIP)
        for p in (TRIP + "-" + str(os.getpid()), TRIP):
            if os.path.exists(p):
                os.unlink(p)
        if label == "refused":
            if events or trip:
                viol.append(("C09:invoked:after-%d-quiet-evaluations:%s:%s" % (n, case["t_class"], (events or ["tripwire"])[0]), case, {"expr": expr, "events": events[:5], "record": i}))
            elif raised is None:
                viol.append(("C09:not-refused:after-%d-quiet-evaluations:%s" % (n, case["t_class"]), case, {"expr": expr, "record": i}))
        if obs(rec) != before:
            viol.append(("C09:record-modified:after-quiet-evaluations:%s" % case["t_class"], case, {"expr": expr, "record": i}))
    seen = set()
    v2 = [v for v in viol if not (v[0] in seen or seen.add(v[0]))]
    return {"ev": n + 3, "h": h, "nt": label == "refused", "out": outs, "viol": v2, "count": {"warm_up_evaluations": n}}


def cases(tier):
    for n in ((1100,) if tier != "thorough" else (130, 1100, 4200, 70000)):
        for t in (T if n <= 1100 else T[::3] if n < 10000 else T[::17]):
            tc = t_class(t)
            for cn, c in LAZY.items():
                if n > 1100 and cn not in ("gen-over-field", "and-field"):
                    continue
                yield {"kind": "warm", "expr": c % ("(%s)" % t if not t.startswith("(") else t), "t": t, "ctx": cn, "t_class": tc, "n": n}
    for e in PURE:
        yield {"expr": e, "kind": "pure", "t_class": "pure"}
    for t in T:
        tc = t_class(t)
        for cn, c in CONTEXTS.items():
            yield {"expr": c % (t if cn == "bare" else "(%s)" % t if not t.startswith("(") else t), "t": t, "ctx": cn, "t_class": tc}
        yield {"expr": t, "t": t, "ctx": "bare", "t_class": tc, "door": "explain"}
        yield {"expr": "(%s) == 1" % t, "t": t, "ctx": "cmp-l", "t_class": tc, "door": "explain"}
    if tier == "thorough":
        for t in T:
            tc = t_class(t)
            for (c1n, c1), (c2n, c2) in itertools.product(CONTEXTS.items(), repeat=2):
                if c1n == "bare" or c2n == "bare":
                    continue
                inner = c1 % ("(%s)" % t)
                yield {"expr": c2 % ("(%s)" % inner), "t": t, "ctx": c1n + ">" + c2n, "t_class": tc}


def main(tier, seed, workers=None):
    run = Run(PROP, "exploration", tier, seed, RULE)
    run.assumptions = ["canary methods log only explicit calls; operators, str()/repr() and iteration are allowed operations",
                       "builtins count as invoked only when called directly from the selector's call site"]
    setup()
    explore(run, cases(tier), run_case, workers, chunk=32)
    return run.finish(lambda case: [v[0] for v in run_case(case)["viol"]])
