"""C19 — Avro export preserves supported values and never corrupts silently."""
from __future__ import annotations

import datetime as _d
import itertools
import os
import struct

from mc import envleg, recs
from mc.alphabets import alphabet
from mc.faults import drain
from mc.obs import obs_list
from mc.recs import rs
from mc.report import Run, jhash
from mc.space import explore

PROP = "C19"
RULE = ("every Avro-mapped type x value alphabet (incl. None, 32/64-bit limits +-1, binary32 edge floats, timestamps of the C13 "
        "alphabet, NUL / non-BMP / surrogate text), pairs over a reduced alphabet, sequences of 0..3 records, every unmapped type "
        "(scalar and list), second record types, and all write histories <=3 over {valid, refused-value, other-type} records, each "
        "closed with flush+close and with a with-block; the file is read by fastavro directly and by AvroReader. non-trivial = at "
        "least one record written")

MAPPED = ["boolean", "datetime", "filesize", "uint16", "uint32", "float", "string", "unix_file_mode", "varint", "wstring", "uri", "digest", "bytes"]
UNMAPPED = ["command", "dynamic", "stringlist", "dictlist", "net.ipv4.Address", "net.tcp.Port", "net.udp.Port", "net.ipaddress", "net.ipnetwork",
            "path", "record", "string[]", "varint[]", "bytes[]", "datetime[]", "float[]", "boolean[]"]
EXTRA = {
    "varint": ["2**31-1", "2**31", "-2**31", "-2**31-1", "2**63-1", "-2**63", "2**63", "-2**63-1"],
    "uint32": ["2**31-1", "2**31", "2**32-1"],
    "uint16": ["32767", "32768", "65535"],
    "float": ["1.0", "0.5", "16777216.0", "16777217.0", "0.1", "3.4028234663852886e38", "3.5e38", "1e-45", "1e-46", "-0.0", "nan", "inf", "-inf"],
    "string": ["'a\\x00b'", "'\\U0001f600'", "'\\udc80'", "''"],
    "bytes": ["b''", "b'\\x00'", "S(b'z', 70000)"],
}
_n = [0]


def f32(x):
    try:
        return struct.unpack(">f", struct.pack(">f", x))[0]
    except OverflowError:
        return None


def normalise(o):
    """Written observation -> what Avro is specified to give back: floats in binary32, timestamps as UTC instants."""
    if isinstance(o, list) and o:
        if o[0] == "float" and len(o) == 3 and isinstance(o[1], str) and o[1].startswith("ft."):
            v = struct.unpack(">d", bytes.fromhex(o[2]))[0]
            r = f32(v)
            if r is None:  # IEEE round-to-nearest: a double beyond the binary32 range converts to infinity
                r = float("inf") if v > 0 else float("-inf")
            return ["float", o[1], struct.pack(">d", r).hex()]
        if o[0] == "dt" and len(o) == 4 and o[3] is not None:
            y, mo, d, h, mi, s, us = o[2]
            try:
                t = _d.datetime(y, mo, d, h, mi, s, us) - _d.timedelta(seconds=o[3])
            except OverflowError:
                return ["dt", o[1], "unrepresentable-in-utc", 0.0]
            return ["dt", o[1], [t.year, t.month, t.day, t.hour, t.minute, t.second, t.microsecond], 0.0]
        return [normalise(x) for x in o]
    return o


def representable(rec):
    """Is every field value inside the range of the Avro type the mapping declares for it?"""
    from flow.record import fieldtypes as ft

    for k in rec.__slots__:
        v = getattr(rec, k)
        if v is None:
            continue
        if isinstance(v, (ft.uint16, ft.uint32)) and not (-2**31 <= int(v) < 2**31):
            return False
        if isinstance(v, int) and not isinstance(v, (ft.uint16, ft.uint32, ft.boolean)) and not (-2**63 <= int(v) < 2**63):
            return False
        if isinstance(v, str):
            try:
                v.encode("utf-8")
            except UnicodeEncodeError:
                return False
        if isinstance(v, _d.datetime):
            try:
                v.astimezone(_d.timezone.utc)
            except OverflowError:
                return False
    return True


FRESH = [False]


def write_file(records, closing):
    """-> (path, per-record outcome list 'ok'|exception, close exception)"""
    from flow.record import RecordWriter

    d = os.environ["VERIF_SCRATCH"]
    _n[0] += 1
    p = os.path.join(d, "c19-%d-%d.avro" % (os.getpid(), _n[0]))
    res = []
    cexc = None

    def feed(w):
        for r in records:
            if FRESH[0]:
                # what opening another source of the same type does: an equal descriptor object takes the place of the previous one
                from flow.record import RecordDescriptor

                RecordDescriptor(r._desc.name, [tuple(t) for t in r._desc.get_field_tuples()])
            try:
                w.write(r)
                res.append("ok")
            except Exception as e:  # noqa: BLE001
                res.append(e)
            if closing == "flush-between":
                w.flush()

    try:
        if closing.startswith("stdout"):
            # the container goes to standard output (avro://-), closed with or without a preceding flush
            import sys

            from mc.rdumpshim import _Std

            old = sys.stdout
            sys.stdout = shim = _Std()
            try:
                if closing == "stdout-with":
                    with RecordWriter("avro://-") as w:
                        feed(w)
                else:
                    w = RecordWriter("avro://-")
                    feed(w)
                    w.close()
            finally:
                sys.stdout = old
                with open(p, "wb") as f:
                    f.write(shim.getvalue())
        elif closing == "with":
            with RecordWriter(p) as w:
                feed(w)
        elif closing in ("bareclose", "flush-mid-bareclose"):
            # no final flush: close() alone must leave everything in the file, also what was written after an earlier flush
            w = RecordWriter(p)
            half = len(records) // 2 if closing == "flush-mid-bareclose" else None
            for i, r in enumerate(records):
                if half is not None and i == max(1, half):
                    w.flush()
                try:
                    w.write(r)
                    res.append("ok")
                except Exception as e:  # noqa: BLE001
                    res.append(e)
            w.close()
        else:
            w = RecordWriter(p)
            if closing in ("flush-first", "flush-between"):
                w.flush()  # a flush before anything was written
            feed(w)
            w.flush()
            w.close()
    except Exception as e:  # noqa: BLE001
        cexc = e
    return p, res, cexc


def run_case(case):
    if case.get("env") and not envleg.in_env(case):
        return envleg.run_single("checks.c19", case)
    import fastavro

    from flow.record import RecordReader

    h = jhash(case)
    try:
        recs.FRESH_DESCRIPTORS[0] = bool(case.get("fresh_descriptors"))
        try:
            records = [recs.build_record(r) for r in case["records"]]
        finally:
            recs.FRESH_DESCRIPTORS[0] = False
    except Exception as e:  # noqa: BLE001
        return {"ev": 1, "h": h, "nt": False, "out": "rejected:" + type(e).__name__}
    FRESH[0] = bool(case.get("fresh_descriptors"))
    written_obs = [normalise(o) for o in obs_list(records)]
    viol = []
    outs = []
    label = case.get("label", case["kind"])
    n = 0
    for closing in ("flushclose", "with", "flush-first", "flush-between", "stdout-close", "stdout-with", "bareclose", "flush-mid-bareclose"):
        n += 1
        p, res, cexc = write_file(records, closing)
        try:
            accepted = [i for i, r in enumerate(res) if r == "ok"]
            refused = [i for i, r in enumerate(res) if r != "ok"]
            expect_refusal = case.get("must_refuse", [])
            for i in expect_refusal:
                if i in accepted:
                    viol.append(("C19:not-refused:%s" % label, case, {"index": i, "closing": closing}))
            if case["kind"] in ("value", "pair", "seq") and refused and all(representable(records[i]) for i in refused):
                e = res[refused[0]]
                viol.append(("C19:mappable-refused:%s:%s" % (label, type(e).__name__), case, {"index": refused[0], "error": repr(e)[:200], "closing": closing}))
            if cexc is not None:
                viol.append(("C19:close-raises:%s:%s" % (label, type(cexc).__name__), case, {"error": repr(cexc)[:200], "closing": closing}))
            want = [written_obs[i] for i in accepted]
            # independent reader: the container must open and hold exactly the accepted records
            direct = None
            try:
                with open(p, "rb") as f:
                    direct = list(fastavro.reader(f))
            except Exception as e:  # noqa: BLE001
                if accepted or True:
                    viol.append(("C19:container-unreadable:%s:%s" % (label if not refused else "after-refusal", type(e).__name__), case,
                                 {"error": repr(e)[:200], "accepted": len(accepted), "refused": len(refused), "closing": closing}))
            if direct is not None and len(direct) != len(accepted):
                viol.append(("C19:record-count:%s" % (label if not refused else "after-refusal"), case, {"in_file": len(direct), "accepted": len(accepted), "closing": closing}))
            # the library's own reader
            if direct is not None:
                try:
                    rd = RecordReader(p)
                    got, exc = drain(rd)
                    rd.close()
                except Exception as e:  # noqa: BLE001
                    got, exc = [], e
                if exc is not None:
                    if not (not accepted and not records):
                        viol.append(("C19:reader-raises:%s:%s" % (label, type(exc).__name__), case, {"error": repr(exc)[:200], "closing": closing}))
                elif case["kind"] == "grouped":
                    # a grouped record may be refused, or stored as its flat view: then every field holds the grouped record's value
                    from mc.obs import obs

                    for i, g in zip(accepted, got):
                        r = records[i]
                        bad = [k for k in g.__slots__ if not k.startswith("_") and (not hasattr(r, k) or normalise(obs(getattr(g, k))) != normalise(obs(getattr(r, k))))]
                        if bad or len([k for k in g.__slots__ if not k.startswith("_")]) != len({k for m in r.records for k in m.__slots__ if not k.startswith("_")}):
                            viol.append(("C19:roundtrip:grouped:values-lost", case, {"fields": bad[:5], "read": repr(g)[:160], "closing": closing}))
                            break
                else:
                    ogot = [normalise(o) for o in obs_list(got)]
                    d = recs.list_diff(want, ogot)
                    if d:
                        viol.append(("C19:roundtrip:%s:%s:%s" % ("after-refusal" if refused else "plain", d[2], d[3]), case,
                                     {"index": d[0], "where": d[1], "closing": closing}))
                # schema carries the descriptor
                if accepted and direct is not None:
                    with open(p, "rb") as f:
                        sch = fastavro.reader(f).writer_schema
                    doc = sch.get("doc")
                    import json

                    try:
                        name, fields = json.loads(doc)
                        r0 = records[accepted[0]]
                        if name != r0._desc.name or [tuple(x) for x in fields] != [tuple(t) for t in r0._desc.get_field_tuples()]:
                            viol.append(("C19:descriptor-in-schema-differs", case, {"doc": doc[:200]}))
                    except Exception:  # noqa: BLE001
                        viol.append(("C19:descriptor-not-in-schema", case, {"doc": repr(doc)[:200]}))
            outs.append("%s:acc%d/ref%d" % (case["kind"], min(len(accepted), 3), min(len(refused), 3)))
        finally:
            try:
                os.unlink(p)
            except OSError:
                pass
    seen = set()
    v2 = [v for v in viol if not (v[0] in seen or seen.add(v[0]))]
    return {"ev": n, "h": h, "nt": len(records) > 0, "out": outs, "viol": v2, "sample": case if int(h, 16) % 199 == 0 else None}


def cases(tier, seed):
    for t in MAPPED:
        vals = alphabet(t, seed) + EXTRA.get(t, [])
        seen = set()
        for v in vals:
            if v in seen:
                continue
            seen.add(v)
            yield {"kind": "value", "label": t, "t": t, "records": [rs("a/one", [[t, "x"]], [v])]}
    atoms = [("string", "'a'"), ("string", "None"), ("varint", "2**63-1"), ("varint", "None"), ("float", "0.5"), ("boolean", "True"), ("boolean", "None"),
             ("datetime", "dt(2020,6,1,12,0,0,5,tz=off(5,30))"), ("datetime", "dt(1969,12,31,23,59,59,999999,tz=UTC)"), ("datetime", "None"),
             ("bytes", "b'\\x00\\xff'"), ("bytes", "None"), ("uri", "'http://h/p'"), ("uint16", "65535"), ("uint32", "2**31-1"), ("filesize", "1024"),
             ("unix_file_mode", "0o644"), ("wstring", "'w'")]
    for (t1, v1), (t2, v2) in itertools.product(atoms, repeat=2):
        yield {"kind": "pair", "label": "pair", "records": [rs("a/pair", [[t1, "a"], [t2, "b"]], [v1, v2])]}
    V1 = rs("a/t", [["string", "s"], ["varint", "n"]], ["'one'", "1"])
    V2 = rs("a/t", [["string", "s"], ["varint", "n"]], ["'two'", "None"])
    for k in range(0, 4):
        for seq in itertools.product([V1, V2], repeat=k):
            yield {"kind": "seq", "label": "seq", "records": list(seq)}
            if k >= 2:
                # the same type arriving from several sources: equal descriptors that are distinct objects
                yield {"kind": "seq", "label": "seq-fresh-descriptors", "records": list(seq), "fresh_descriptors": True}
    EMPTY = rs("a/empty", [], [])
    for k in (1, 2, 3):
        yield {"kind": "seq", "label": "seq-fieldless", "records": [EMPTY] * k}
    GA = rs("a/ga", [["string", "s"], ["varint", "n"]], ["'va'", "1"])
    GB = rs("a/gb", [["float", "f"]], ["0.5"])
    yield {"kind": "grouped", "label": "grouped", "records": [{"group": "a/grp", "members": [GA, GB]}]}
    yield {"kind": "grouped", "label": "grouped", "records": [{"group": "a/grp", "members": [GA, GB]}, {"group": "a/grp", "members": [GA, GB]}]}
    for t in UNMAPPED:
        v = {"record": "None", "record[]": "None"}.get(t, "None")
        yield {"kind": "unmapped", "label": "unmapped-type", "records": [rs("a/u", [["string", "s"], [t, "x"]], ["'s'", v])], "must_refuse": [0]}
    # histories: valid / refused value (partially encodable) / other type, all sequences up to 3
    BADINT = rs("a/t", [["string", "s"], ["varint", "n"]], ["'big'", "2**70"])
    BADSTR = rs("a/t", [["string", "s"], ["varint", "n"]], ["'\\udc80'", "5"])
    BADLATE = rs("a/t", [["string", "s"], ["varint", "n"]], ["'late'", "-2**63-1"])
    OTHER = rs("a/other", [["string", "s"], ["varint", "n"]], ["'o'", "7"])
    OTHERF = rs("a/t", [["varint", "n"], ["string", "s"]], ["8", "'swapped'"])
    # same type name and the same 32-bit identifier as a/t [string s, varint n] ("s"+"string"+"n"+"varint" == "sstringn"+"varint"), other fields
    OTHERC = rs("a/t", [["varint", "sstringn"]], ["9"])
    kinds = {"V1": V1, "V2": V2, "BADINT": BADINT, "BADSTR": BADSTR, "BADLATE": BADLATE, "OTHER": OTHER, "OTHERF": OTHERF, "OTHERC": OTHERC}
    bad = {"BADINT", "BADSTR", "BADLATE"}
    for k in range(1, 5 if tier == "thorough" else 4):
        for seq in itertools.product(kinds, repeat=k):
            if not any(s in bad or s.startswith("OTHER") for s in seq):
                continue
            must = [i for i, s in enumerate(seq) if s in bad or (s.startswith("OTHER") and i > 0 and seq[0] != s and not seq[0].startswith("OTHER"))]
            # a second record type is one that differs from the type of the first *accepted* record
            # the file's record type is fixed by the first record offered (its schema is created then, accepted or not)
            must = [i for i, s in enumerate(seq) if s in bad or _type_of(s) != _type_of(seq[0])]
            yield {"kind": "history", "label": "history", "shape": list(seq), "records": [kinds[s] for s in seq], "must_refuse": must}
    # the same for a 32-bit column: a value outside the schema's range is refused as the first, the second and the third record of a file
    U_OK = rs("a/u32", [["uint32", "n"], ["string", "s"]], ["5", "'ok'"])
    U_OK2 = rs("a/u32", [["uint32", "n"], ["string", "s"]], ["2**31-1", "'edge'"])
    U_BAD = rs("a/u32", [["uint32", "n"], ["string", "s"]], ["2**31", "'over'"])
    U_BAD2 = rs("a/u32", [["uint32", "n"], ["string", "s"]], ["2**32-1", "'max'"])
    ukinds = {"U_OK": U_OK, "U_OK2": U_OK2, "U_BAD": U_BAD, "U_BAD2": U_BAD2}
    for k in range(1, 4):
        for seq in itertools.product(ukinds, repeat=k):
            if any("BAD" in x for x in seq) and (k < 3 or seq[0] in ("U_OK", "U_BAD")):
                yield {"kind": "history", "label": "history-u32", "shape": list(seq), "records": [ukinds[x] for x in seq], "must_refuse": [i for i, x in enumerate(seq) if "BAD" in x]}
    # out-of-range values for the schema
    for t, v in (("uint32", "2**31"), ("uint32", "2**32-1"), ("varint", "2**63"), ("varint", "-2**63-1"), ("filesize", "2**64"), ("float", "3.5e38"),
                 ("float", "1.7976931348623157e308"), ("string", "'\\udc80'"), ("uri", "'\\udc80'")):
        yield {"kind": "range", "label": "range:" + t, "records": [rs("a/r", [[t, "x"]], [v])]}


def _type_of(s):
    return {"V1": "t", "V2": "t", "OTHER": "other", "OTHERF": "tf", "OTHERC": "tc"}.get(s, "t")


def main(tier, seed, workers=None):
    run = Run(PROP, "exploration", tier, seed, RULE)
    run.assumptions = ["fastavro.reader opened directly on the file is the 'standard Avro reader'",
                       "out-of-range values may be refused or stored exactly; they may not be stored as something else"]
    explore(run, cases(tier, seed), run_case, workers, chunk=16)
    # the process time zone (TZ, read by the C library at start-up) must not move an instant: value / pair cases in child interpreters
    tzcases = [c for c in cases("quick", seed) if c["kind"] == "pair" or (c["kind"] == "value" and c["t"] == "datetime")]
    for env in ({"TZ": "America/New_York"}, {"TZ": "Asia/Tokyo", "FLOW_RECORD_TZ": "Europe/Amsterdam"}):
        envleg.explore_env(run, "checks.c19", tzcases, env, workers)
    return run.finish(lambda case: [v[0] for v in run_case(case)["viol"]])
