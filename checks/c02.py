"""C02 — written bytes conform to the frozen wire format (independent reference codec, three directions)."""
from __future__ import annotations

import gzip
import io
import json
import os
import warnings

from mc.recs import rs
from mc import recs, refcodec, streamspace
from mc.obs import obs_list
from mc.report import ROOT, Run, jhash
from mc.space import explore

PROP = "C02"
RULE = ("C01 space S1..S5; (i) bytes written by the implementation decoded by mc.refcodec (own msgpack subset, frames, ext-14 "
        "sub-types, recomputed descriptor hash); (ii) the same records encoded by refcodec in 11 wire variants and decoded by "
        "RecordStreamReader, judged against refcodec's own decoding of those bytes; (iii) frozen golden corpus. non-trivial = "
        "record accepted by constructors and not all-None")

VARIANTS = {
    "current": {},
    "extra1": {"extra_reserved": 1},
    "extra2": {"extra_reserved": 2},
    "noversion": {"drop_version": True},
    "bareident": {"bare_ident": True},
    "wide": {"wide": True},
    "repeatdesc": {"repeat_desc": True},
    "repeatheader": {"repeat_header": True},
    "binnames": {"bin_names": True},
    # an archived stream whose records refer to their type by bare name and whose parts each announce their types again
    "bare+repeat": {"bare_ident": True, "repeat_desc": True},
    "noversion+repeat": {"drop_version": True, "bare_ident": True, "repeat_desc": True},
}


XFAIL = [()]  # indices of records whose write is expected to be refused; the caller skips them


class _Chunked(io.RawIOBase):
    """A raw device that takes at most k bytes per write call (pipe, socket): the written bytes are what it received."""

    def __init__(self, k):
        super().__init__()
        self.k, self.got = k, bytearray()

    def writable(self):
        return True

    def write(self, b):
        b = bytes(b)[: self.k]
        self.got += b
        return len(b)

    def getvalue(self):
        return bytes(self.got)


def impl_write(records, chunk=None):
    from flow.record import RecordStreamWriter

    buf = io.BytesIO() if chunk is None else _Chunked(chunk)
    w = RecordStreamWriter(buf)
    for i, r in enumerate(records):
        if i in XFAIL[0]:
            try:
                w.write(r)
            except (UnicodeError, ValueError, TypeError, OverflowError):
                pass
        else:
            w.write(r)
    w.flush()
    return buf.getvalue()


def impl_read(data):
    from flow.record import RecordStreamReader

    with warnings.catch_warnings():
        warnings.simplefilter("ignore")
        return list(RecordStreamReader(io.BytesIO(data)))


def has_big_nonvarint(case):
    return False


def run_case(case):
    if case.get("kind") == "golden":
        return run_golden(case)
    h = jhash(case)
    try:
        specs = streamspace.expand(case)
        records = [recs.build_record(r) for r in specs]
    except Exception as e:  # noqa: BLE001
        return {"ev": 1, "h": h, "nt": False, "out": "rejected:" + type(e).__name__}
    XFAIL[0] = tuple(i for i, r in enumerate(specs) if r.get("xfail"))
    expected = obs_list([r for i, r in enumerate(records) if i not in XFAIL[0]])
    viol = []
    outs = []
    n = 1
    # (i) impl -> ref
    try:
        data = impl_write(records)
    except Exception as e:  # noqa: BLE001  (C01 reports writer failures)
        return {"ev": 1, "h": h, "nt": True, "out": "impl-write-raises:" + type(e).__name__}
    try:
        from flow.record import ignore_fields_for_comparison

        with ignore_fields_for_comparison(["_generated", "x", "a", "n", "_source"]):
            data_ign = impl_write(records)
        if data_ign != data:
            viol.append(("C02:impl:bytes-depend-on-comparison-config", case, {"plain": data.hex()[:300], "with_ignore_set": data_ign.hex()[:300]}))
    except Exception as e:  # noqa: BLE001
        viol.append(("C02:impl:write-under-ignore-config-raises-%s" % type(e).__name__, case, {"error": repr(e)[:200]}))
    if not case.get("light"):
        try:
            data_ch = impl_write(records, chunk=5 if len(data) < 65536 else 4093)  # (5 bytes per call on megabytes costs minutes, not coverage)
            if data_ch != data:
                viol.append(("C02:impl:bytes-depend-on-device:chunked", case, {"plain": data.hex()[:300], "chunked": data_ch.hex()[:300]}))
        except Exception as e:  # noqa: BLE001
            viol.append(("C02:impl:write-to-chunked-device-raises-%s" % type(e).__name__, case, {"error": repr(e)[:200]}))
    try:
        got, dec = refcodec.decode_stream(data)
        d = recs.list_diff(expected, got)
        if d:
            idx, where, ftype, cls = d
            viol.append(("C02:impl->ref:%s:%s" % (ftype, cls), case,
                         {"where": where, "written": expected[idx] if idx >= 0 else len(expected),
                          "ref_decoded": got[idx] if 0 <= idx < len(got) else len(got), "hex": data.hex()[:600]}))
            outs.append("i-diff")
        else:
            outs.append("i-ok")
    except refcodec.FormatError as e:
        viol.append(("C02:impl->ref:format:%s" % str(e)[:40], case, {"error": str(e), "hex": data.hex()[:600]}))
        outs.append("i-format")
    # (ii) ref -> impl
    for vn, kw in VARIANTS.items():
        if XFAIL[0] or (case.get("light") and vn != "current"):
            break  # direction (ii) encodes what was accepted; refused-write histories are a writer-side matter
        if vn in ("repeatheader",) and len(expected) < 2:
            continue
        n += 1
        try:
            rdata = refcodec.encode_stream(expected, **kw)
            ref_view, _ = refcodec.decode_stream(rdata)
        except refcodec.FormatError as e:
            outs.append("ii-unencodable")  # e.g. uint with float value: outside the reference codec's domain
            continue
        try:
            got = obs_list(impl_read(rdata))
        except Exception as e:  # noqa: BLE001
            viol.append(("C02:ref->impl:%s:raises-%s" % (vn, type(e).__name__), case, {"error": repr(e)[:300], "hex": rdata.hex()[:600]}))
            outs.append("ii-raise")
            continue
        if vn in ("current", "repeatheader"):
            # the same conforming bytes consumed in two goes (first record, then the rest) by one reader
            from mc.faults import drain_resumed

            with warnings.catch_warnings():
                warnings.simplefilter("ignore")
                from flow.record import RecordStreamReader

                items2, exc2 = drain_resumed(RecordStreamReader(io.BytesIO(rdata)))
            if exc2 is not None or obs_list(items2) != got:
                viol.append(("C02:ref->impl:%s:resumed-reading-differs" % vn, case, {"error": repr(exc2)[:200], "read": len(items2), "in_one_go": len(got)}))
        d = recs.list_diff(ref_view, got)
        if d:
            idx, where, ftype, cls = d
            viol.append(("C02:ref->impl:%s:%s:%s" % (vn, ftype, cls), case,
                         {"where": where, "ref_view": ref_view[idx] if 0 <= idx < len(ref_view) else None,
                          "impl_read": got[idx] if 0 <= idx < len(got) else None, "hex": rdata.hex()[:600]}))
            outs.append("ii-diff")
        else:
            outs.append("ii-ok")
    seen = set()
    v2 = [v for v in viol if not (v[0] in seen or seen.add(v[0]))]
    nontrivial = any(any(s[1] != ["none"] for s in o[3][:-3]) if o[0] == "rec" else True for o in expected)
    return {"ev": n, "h": h, "nt": nontrivial, "out": "%s:%s" % (case["kind"], "/".join(sorted(set(outs)))), "viol": v2,
            "sample": case if int(h, 16) % 1499 == 0 else None}


# ------------------------------------------------------------------------------------------------ golden corpus

GOLDEN = os.path.join(ROOT, "golden")


def golden_cases():
    if not os.path.isdir(GOLDEN):
        return
    for fn in sorted(os.listdir(GOLDEN)):
        if fn.endswith(".json"):
            yield {"kind": "golden", "file": fn}


def run_golden(case):
    h = jhash(case)
    with open(os.path.join(GOLDEN, case["file"])) as f:
        g = json.load(f)
    viol = []
    n = 0
    for ext in ("records", "records.gz"):
        p = os.path.join(GOLDEN, case["file"][:-5] + "." + ext)
        raw = open(p, "rb").read()
        data = gzip.decompress(raw) if ext.endswith(".gz") else raw
        n += 1
        try:
            got = obs_list(impl_read(data))
        except Exception as e:  # noqa: BLE001
            viol.append(("C02:golden:%s:raises-%s" % (case["file"], type(e).__name__), case, {"error": repr(e)[:300]}))
            continue
        d = recs.list_diff(g["obs"], got)
        if d:
            viol.append(("C02:golden:%s:%s:%s" % (ext, d[2], d[3]), case, {"file": case["file"], "index": d[0], "where": d[1]}))
        try:
            rv, _ = refcodec.decode_stream(data)
            d = recs.list_diff(g["obs"], rv)
            if d:
                viol.append(("C02:golden-ref:%s:%s" % (d[2], d[3]), case, {"file": case["file"], "index": d[0], "where": d[1]}))
        except refcodec.FormatError as e:
            viol.append(("C02:golden-ref:format", case, {"error": str(e)}))
    # re-encoding the golden records by the current implementation: byte identity is reported, not judged
    same = None
    try:
        records = [recs.build_record(r) for r in g["records"]]
        same = impl_write(records) == open(os.path.join(GOLDEN, case["file"][:-5] + ".records"), "rb").read()
    except Exception:  # noqa: BLE001
        pass
    return {"ev": n, "h": h, "nt": True, "out": "golden:%s" % ("byte-identical" if same else "re-encoded-differs"), "viol": viol,
            "count": {"golden_files_read": n, "golden_byte_identical": 1 if same else 0}, "sample": case}


def many_types(n):
    """n record types announced once each, then records of early, middle and late types again (registry size classes)."""
    specs = [rs("t/m%d" % i, [["varint", "n"], ["string", "s"]], [str(i), "'v%d'" % i]) for i in range(n)]
    return specs + [specs[0], specs[1], specs[n // 2], specs[n - 1], specs[0]]


def all_cases(tier, seed):
    yield from golden_cases()
    for n in (255, 256, 257, 511, 512, 513, 600, 1025) + ((4097, 70000) if tier == "thorough" else ()):
        # (beyond the class cache the case costs minutes per wire variant: the largest one is judged on the current variant only)
        yield dict({"kind": "manytypes", "t": "registry", "n": n, "records": many_types(n)}, **({"light": True} if n > 5000 else {}))
    yield from streamspace.cases(tier, seed)


def main(tier, seed, workers=None):
    run = Run(PROP, "exploration", tier, seed, RULE)
    run.assumptions = ["mc.refcodec is the trusted independent statement of the format", "golden corpus generated once at the pinned revision 69a5132"]
    explore(run, all_cases(tier, seed), run_case, workers)
    run.extra["variants"] = list(VARIANTS)
    return run.finish(lambda case: [v[0] for v in run_case(case)["viol"]])
