"""C03 — every record is decoded with the descriptor it was written with (E2: registry machine to a fixpoint)."""
from __future__ import annotations

import io
import json
import os
import warnings

from mc import recs, refcodec
from mc.bfs import bfs
from mc.faults import drain, drain_resumed
from mc.obs import obs_list
from mc.recs import rs
from mc.report import Run, jhash

PROP = "C03"
RULE = ("explicit-state BFS over write histories write(writer, kind) on real RecordStreamWriter / JsonfileWriter objects; "
        "state = event history, canonical state = per-writer packer registry + reference-reader registry; every transition "
        "is judged by (1) the reference decoder on the writer's whole byte string (DESC before REC, identifier maps to the "
        "descriptor the record was created with), (2) the real reader end-to-end, (3) independence of the other writers' bytes")

# kinds ----------------------------------------------------------------------------------------------------------
A = rs("t/x", [["stringlist", "a"], ["string", "b"]], ["['l1']", "'sb'"])
B = rs("t/x", [["string", "a"], ["string", "listb"]], ["'sa'", "'slb'"])  # identifier coincides with A's
A2 = rs("t/x", [["varint", "n"]], ["5"])  # same name, other fields
C = rs("t/c", [["path", "p"]], ["'/c'"])
X = rs("t/nestedonly", [["varint", "q"]], ["9"])
Y = rs("t/groupedonly", [["string", "g"]], ["'gy'"])
N_A = rs("t/holder", [["record", "sub"]], [A])
N_X = rs("t/holders", [["record[]", "subs"]], [[X, X]])
G = {"group": "g/ac", "members": [A, C]}
G_Y = {"group": "g/yc", "members": [Y, C]}
G_B = {"group": "g/bc", "members": [B, C]}
N_B = rs("t/holder", [["record", "sub"]], [B])
P1 = rs("t/p1", [["stringlist", "a"]], ["['l1']"])
P2 = rs("t/p2", [["string", "b"], ["path", "p"]], ["'sb'", "'/c'"])
G_ALT = {"group": "g/ac", "members": [P1, P2]}  # same group name and flattened fields as G, other member types
G_AA2 = {"group": "g/aa2", "members": [A2, A]}
G_AB = {"group": "g/ab", "members": [A, B]}  # two members whose identifiers coincide inside ONE frame (found by the TLA+ model)  # two members sharing a type name but not the fields
F_BAD = rs("t/f", [["string", "s"]], ["chr(0xd800)"])  # cannot be encoded: the write raises after the type was registered
F_OK = rs("t/f", [["string", "s"]], ["'fine'"])
NF_BAD = rs("t/nf", [["record", "sub"]], [F_BAD])
NF_OK = rs("t/nf", [["record", "sub"]], [F_OK])
F2_BAD = dict(rs("t/f2", [["uint32[]", "xs"]], ["[1]"]), mutate=[["xs", "'not a number'"]])  # refused inside Record._pack()
F2_OK = rs("t/f2", [["uint32[]", "xs"]], ["[2]"])
J_BAD = rs("t/j", [["varint", "n"]], ["10**5000"])  # json.dumps refuses it (int -> str digit limit); the binary packer takes it
J_OK = rs("t/j", [["varint", "n"]], ["5"])
NJ_BAD = rs("t/nj", [["record", "sub"]], [J_BAD])
NJ_OK = rs("t/nj", [["record", "sub"]], [J_OK])
U1 = rs("u/v_w", [["string", "s"]], ["'one'"])  # same Python-safe class name as U2, same fields
U2 = rs("u/v/w", [["string", "s"]], ["'two'"])
# descriptors derived from one that is already in use (extend / clone / string definition / merge), and alias spellings
D_BASE = rs("t/d", [["string", "a"]], ["'va'"])
D_EXT = dict(rs("t/d", [["string", "a"], ["varint", "n"]], ["'va'", "1"]), via=["extend", 1])
D_CLONE = dict(rs("t/dclone", [["string", "a"]], ["'vc'"]), via=["clone", "t/d"])
D_STR = dict(rs("t/dstr", [["string", "a"], ["varint", "n"]], ["'vs'", "2"]), via=["strdef"])
D_UNP = dict(rs("t/d", [["string", "a"], ["varint", "n"]], ["'vu'", "3"]), via=["unpack"])
D_MERGE = dict(rs("t/d", [["string", "a"], ["boolean", "c"]], ["'vm'", "True"]), via=["merge", 1])
AL1 = rs("t/al", [["string", "s"], ["net.ipaddress", "ip"]], ["'x'", "'1.2.3.4'"])
AL2 = rs("t/al", [["wstring", "s"], ["net.IPAddress", "ip"]], ["'x'", "'1.2.3.4'"])
E0 = rs("t/empty0", [], [])  # a record type without fields
N_E0 = rs("t/holdsempty", [["record", "sub"]], [E0])
G_E0 = {"group": "g/e0", "members": [E0, C]}
G_GEN = {"group": "g/gen", "members": [Y, C], "members_as": "generator"}  # members handed over as a one-shot iterable
G_MAP = {"group": "g/map", "members": [X, A2], "members_as": "map"}
G_NEST = {"group": "g/outer", "members": [{"group": "g/inner", "members": [A2, C, Y]}, X]}  # a grouped record built from a grouped record
KINDS = {"G_NEST": G_NEST, "E0": E0, "N_E0": N_E0, "G_E0": G_E0, "G_GEN": G_GEN, "G_MAP": G_MAP, "D_BASE": D_BASE, "D_EXT": D_EXT, "D_CLONE": D_CLONE, "D_STR": D_STR, "D_UNP": D_UNP, "D_MERGE": D_MERGE, "AL1": AL1, "AL2": AL2, "J_BAD": J_BAD, "J_OK": J_OK, "NJ_BAD": NJ_BAD, "NJ_OK": NJ_OK, "F2_BAD": F2_BAD, "F2_OK": F2_OK, "U1": U1, "U2": U2, "G_AB": G_AB, "G_ALT": G_ALT, "G_AA2": G_AA2, "F_BAD": F_BAD, "F_OK": F_OK, "NF_BAD": NF_BAD, "NF_OK": NF_OK, "A": A, "B": B, "A2": A2, "C": C, "N_A": N_A, "N_X": N_X, "G": G, "G_Y": G_Y, "G_B": G_B, "N_B": N_B}

CONF = {}  # set in main(): {"packer": "binary"|"json", "m": int, "kinds": [...]}


def kinds_for(packer, names):
    if packer == "json":
        # JSON lines has no grouped encoding; a typed list mutated in place is not validated by the JSON writer (garbage in)
        return [k for k in names if not k.startswith("G") and not k.startswith("F2_")]
    return list(names)


CORE = ["A", "B", "A2", "C", "N_A", "N_X", "G", "G_Y", "G_B", "N_B", "G_AB"]
SPECIAL = ["A", "C", "G", "G_ALT", "G_AA2", "F_BAD", "F_OK", "NF_BAD", "NF_OK", "F2_BAD", "F2_OK", "U1", "U2"]
ODD = ["A", "C", "G_NEST", "E0", "N_E0", "G_E0", "G_GEN", "G_MAP", "A2"]
DERIVED = ["A", "G", "D_BASE", "D_EXT", "D_CLONE", "D_STR", "D_UNP", "D_MERGE", "AL1", "AL2"]
JSPECIAL = ["A", "C", "J_BAD", "J_OK", "NJ_BAD", "NJ_OK", "F_OK", "U1", "U2", "N_X"]


def generic_canon(obj, depth=0):
    """Project every attribute of a writer/packer object (not only the registry) so that state a change adds is not merged away."""
    from flow.record import RecordDescriptor

    if depth > 3:
        return "..."
    if isinstance(obj, RecordDescriptor):
        return ["desc", obj.name, [list(t) for t in obj.get_field_tuples()]]
    if isinstance(obj, (str, int, float, bool, type(None), bytes)):
        return repr(obj)[:80]
    if isinstance(obj, dict):
        return sorted([[repr(k)[:80], generic_canon(v, depth + 1)] for k, v in obj.items()], key=lambda kv: kv[0])
    if isinstance(obj, (list, tuple)):
        return [generic_canon(v, depth + 1) for v in obj]
    if isinstance(obj, (set, frozenset)):
        return sorted(repr(generic_canon(v, depth + 1)) for v in obj)
    if hasattr(obj, "read") or hasattr(obj, "write") and hasattr(obj, "flush") and not hasattr(obj, "packer"):
        return "<file>"
    d = getattr(obj, "__dict__", None)
    if d is None:
        return type(obj).__name__
    return [type(obj).__name__, sorted([[k, generic_canon(v, depth + 1)] for k, v in d.items() if k not in ("fp", "handlers", "on_descriptor")],
                                       key=lambda kv: kv[0])]


def module_state():
    """Mutable module/class level containers of the writing modules (a hoisted cache would live here)."""
    import flow.record.jsonpacker as jp
    import flow.record.packer as pk
    import flow.record.stream as st

    out = []
    for mod in (pk, jp, st):
        for k, v in sorted(vars(mod).items()):
            if k.startswith("__"):
                continue
            if isinstance(v, (dict, list, set)):
                out.append([mod.__name__, k, generic_canon(v)])
            elif isinstance(v, type) and v.__module__ == mod.__name__:
                for ck, cv in sorted(vars(v).items()):
                    if isinstance(cv, (dict, list, set)) and not ck.startswith("__"):
                        out.append([mod.__name__, v.__name__ + "." + ck, generic_canon(cv)])
    return out


def _registry(writer):
    """The writer's descriptor registry if it is where it is today; the generic projection covers the object either way."""
    reg = getattr(getattr(writer, "packer", None), "descriptors", None)
    return reg if isinstance(reg, dict) else {}


def reg_canon(descriptors):
    out = []
    for k, d in descriptors.items():
        out.append([repr(k), d.name, [list(t) for t in d.get_field_tuples()]])
    return sorted(out)


def json_events(text):
    """Independent line-level reading of JSON lines output -> list of ('DESC', ident, name, fields) / ('REC', ident)."""
    ev = []
    for line in text.splitlines():
        if not line.strip():
            continue
        d = json.loads(line)
        if d.get("_type") == "recorddescriptor":
            name, fields = d["_data"]
            fields = [(f[0], f[1]) for f in fields]
            ev.append(("DESC", (name, refcodec.desc_hash(name, fields)), name, fields))
        elif d.get("_type") == "record":
            ev.append(("REC", tuple(d["_recorddescriptor"])))
    return ev


def _descs(spec, acc=None):
    """All (name, fields) descriptors contained in a record spec, nested ones included."""
    acc = [] if acc is None else acc
    if "group" in spec:
        for m in spec["members"]:
            _descs(m, acc)
        return acc
    acc.append((spec["name"], tuple(tuple(f) for f in spec["fields"])))
    for v in spec.get("values", []):
        if isinstance(v, dict):
            _descs(v, acc)
        elif isinstance(v, list):
            for x in v:
                if isinstance(x, dict):
                    _descs(x, acc)
    return acc


def conflict_class(hist):
    """How the last event's descriptors relate to what the same writer saw before: ident-coincide / same-name / fresh / repeat."""
    w, k = hist[-1]
    mine = set(_descs(KINDS[k]))
    earlier = set()
    for ww, kk in hist[:-1]:
        if ww == w:
            earlier |= set(_descs(KINDS[kk]))
    cls = set()
    for name, fields in mine:
        for n2, f2 in earlier:
            if (name, fields) == (n2, f2):
                continue
            if n2 == name and refcodec.desc_hash(name, fields) == refcodec.desc_hash(n2, f2):
                cls.add("ident-coincide")
            elif n2 == name:
                cls.add("same-name")
    if not cls:
        cls.add("repeat" if mine <= earlier else "fresh")
    return "+".join(sorted(cls))


def ref_tolerant(data):
    """Decode frame by frame with the reference decoder -> one entry per REC/GROUPED frame: obs, or an error string."""
    out = []
    dec = refcodec.Decoder()
    try:
        frames = refcodec.split_frames(data)
    except refcodec.FormatError as e:
        return [str(e)]
    for _, _, payload in frames:
        n = len(dec.events)
        try:
            o = dec.feed_payload(payload)
            if o is not None:
                out.append(o)
        except (refcodec.FormatError, ValueError, TypeError, KeyError, IndexError) as e:
            if len(dec.events) == n:
                out.append("%s: %s" % (type(e).__name__, e))
    return out


def step(hist):
    conf = CONF
    if conf["packer"] == "binary":
        return step_binary(hist, conf)
    return step_json(hist, conf)


def _enabled(conf):
    return [[w, k] for w in range(conf["m"]) for k in conf["kinds"]]


def step_binary(hist, conf):
    from flow.record import RecordStreamReader, RecordStreamWriter

    m = conf["m"]
    bufs = [io.BytesIO() for _ in range(m)]
    writers = [RecordStreamWriter(b) for b in bufs]
    written = [[] for _ in range(m)]
    before = None
    for i, (w, k) in enumerate(hist):
        if i == len(hist) - 1:
            before = [b.getvalue() for b in bufs]
        r = recs.build_record(KINDS[k])
        try:
            with warnings.catch_warnings():
                warnings.simplefilter("error" if conf.get("werror") else "ignore")
                writers[w].write(r)
            written[w].append(r)
            last_failed = False
        except (UnicodeError, ValueError, TypeError, OverflowError, Warning):
            last_failed = True  # a refused record: nothing of it may count as written; later records must still decode
    viol = []
    case = {"kind": "hist", "packer": "binary", "m": m, "history": hist, "werror": bool(conf.get("werror"))}
    out = "root"
    canon = []
    datas = [b.getvalue() for b in bufs]
    for wi in range(m):
        dec_reg = []
        if datas[wi]:
            try:
                _, dec = refcodec.decode_stream(datas[wi])
                dec_reg = sorted([repr(k), v[0], [list(f) for f in v[1]]] for k, v in dec.reg.items())
            except refcodec.FormatError:
                dec_reg = ["format-error"]
        canon.append([getattr(writers[wi], "header_written", None), reg_canon(_registry(writers[wi])), dec_reg, generic_canon(writers[wi])])
    canon.append(module_state())
    if hist and last_failed:
        # the record was refused; judge only that the stream is still well formed for what was accepted
        w, k = hist[-1]
        got = ref_tolerant(datas[w])
        if len(got) != len(written[w]):
            viol.append(("C03:binary:refused-write-left-a-record:%s" % k, case, {"on_wire": len(got), "accepted": len(written[w])}))
        for wr in writers:
            wr.fp = None
        return {"canon": canon, "viol": viol, "out": k + ":refused", "enabled": _enabled(conf)}
    if hist:
        w, k = hist[-1]
        expected = obs_list(written[w])
        sig_kinds = "%s:%s" % (k, conflict_class(hist))
        spec = KINDS[k]
        if "name" in spec and written[w] and (written[w][-1]._desc.name != spec["name"] or
                                              [list(t) for t in written[w][-1]._desc.get_field_tuples()] != [list(f) for f in spec["fields"]]):
            viol.append(("C03:binary:record-reports-another-descriptor:%s" % k, case, {"asked": spec["name"], "reports": written[w][-1]._desc.name}))
        # (1) reference decoder, frame by frame (tolerant: an earlier bad record was reported on its own transition)
        got = ref_tolerant(datas[w])
        out = "ok"
        if len(got) != len(expected):
            viol.append(("C03:binary:ref-count:%s" % sig_kinds, case, {"records_on_wire": len(got), "written": len(expected)}))
            out = "ref-count"
        elif isinstance(got[-1], str):
            viol.append(("C03:binary:ref-format:%s" % sig_kinds, case, {"error": got[-1]}))
            out = "ref-format"
        else:
            d = recs.locate(expected[-1], got[-1])
            if d:
                viol.append(("C03:binary:ref-decode:%s:%s" % (sig_kinds, d[2]), case, {"where": d[0], "diff": d[2],
                                                                                  "written": expected[-1], "decoded_as": got[-1]}))
                out = "ref-diff"
        # (2) real reader end to end (judges the record of this event; masked if an earlier record already fails)
        with warnings.catch_warnings():
            warnings.simplefilter("ignore")
            try:
                items, exc = drain(RecordStreamReader(io.BytesIO(datas[w])))
            except Exception as e:  # noqa: BLE001
                items, exc = [], e
        real = obs_list(items)
        if exc is None:
            with warnings.catch_warnings():
                warnings.simplefilter("ignore")
                items2, exc2 = drain_resumed(RecordStreamReader(io.BytesIO(datas[w])))
            if exc2 is not None or obs_list(items2) != real:
                viol.append(("C03:binary:reader-resumed-differs:%s" % sig_kinds, case, {"error": repr(exc2)[:200], "read": len(items2), "in_one_go": len(real)}))
        if exc is not None and len(real) < len(expected) - 1:
            out += "/reader-masked"
        elif exc is not None:
            viol.append(("C03:binary:reader-raises:%s:%s" % (sig_kinds, type(exc).__name__), case, {"error": repr(exc)[:300]}))
            out += "/reader-raise"
        elif len(real) != len(expected):
            viol.append(("C03:binary:reader-count:%s" % sig_kinds, case, {"read": len(real), "written": len(expected)}))
        else:
            d = recs.locate(expected[-1], real[-1])
            if d:
                viol.append(("C03:binary:reader:%s:%s" % (sig_kinds, d[2]), case, {"where": d[0], "diff": d[2]}))
                out += "/reader-diff"
            else:
                # a grouped record also has a flat descriptor (name + ordered field list): it must come back as it was created
                wf, rf = written[w][-1]._desc, items[-1]._desc
                if (wf.name, [list(t) for t in wf.get_field_tuples()]) != (rf.name, [list(t) for t in rf.get_field_tuples()]):
                    viol.append(("C03:binary:reader:%s:flat-descriptor-differs" % sig_kinds, case,
                                 {"created_with": [list(t) for t in wf.get_field_tuples()], "read_back": [list(t) for t in rf.get_field_tuples()]}))
        # (3) independence
        for o in range(m):
            if o != w and before is not None and datas[o] != before[o]:
                viol.append(("C03:binary:other-writer-changed", case, {"writer": o}))
        out = k + ":" + out
    for wr in writers:
        wr.fp = None
    return {"canon": canon, "viol": viol, "out": out, "enabled": _enabled(conf)}


_n = [0]


def step_json(hist, conf):
    from flow.record.adapter.jsonfile import JsonfileReader, JsonfileWriter

    m = conf["m"]
    bufs = [io.StringIO() for _ in range(m)]
    writers = [JsonfileWriter(b) for b in bufs]
    written = [[] for _ in range(m)]
    before = None
    for i, (w, k) in enumerate(hist):
        if i == len(hist) - 1:
            before = [b.getvalue() for b in bufs]
        r = recs.build_record(KINDS[k])
        try:
            with warnings.catch_warnings():
                warnings.simplefilter("error" if conf.get("werror") else "ignore")
                writers[w].write(r)
            written[w].append(r)
            last_failed = False
        except (UnicodeError, ValueError, TypeError, Warning):
            last_failed = True
    viol = []
    case = {"kind": "hist", "packer": "json", "m": m, "history": hist, "werror": bool(conf.get("werror"))}
    out = "root"
    datas = [b.getvalue() for b in bufs]
    canon = []
    for wi in range(m):
        rreg = {}
        for e in json_events(datas[wi]):
            if e[0] == "DESC":
                cur = rreg.setdefault(repr(e[1]), [None, None])  # first and last announcement per identifier
                if cur[0] is None:
                    cur[0] = [e[2], [list(f) for f in e[3]]]
                cur[1] = [e[2], [list(f) for f in e[3]]]
        canon.append([reg_canon(_registry(writers[wi])), sorted(rreg.items()), generic_canon(writers[wi])])
    canon.append(module_state())
    if hist and last_failed:
        for wr in writers:
            wr.fp = None
        return {"canon": canon, "viol": viol, "out": hist[-1][1] + ":refused", "enabled": _enabled(conf)}
    if hist:
        w, k = hist[-1]
        expected = obs_list(written[w])
        sig_kinds = "%s:%s" % (k, conflict_class(hist))
        # (1) independent line-level check: every REC's identifier was announced before it with the right descriptor.
        #     top-level records only (nested ones are covered by (2)); last announcement before the record counts.
        reg = {}
        recno = 0
        out = "ok"
        for e in json_events(datas[w]):
            if e[0] == "DESC":
                reg[e[1]] = (e[2], e[3])
            else:
                wr = written[w][recno] if recno < len(written[w]) else None
                recno += 1
                if wr is None:
                    viol.append(("C03:json:extra-record-line:%s" % sig_kinds, case, {}))
                    break
                want = (wr._desc.name, [tuple(t) for t in wr._desc.get_field_tuples()])
                have = reg.get(e[1])
                if recno == len(written[w]) and (have is None or (have[0], [tuple(t) for t in have[1]]) != want):
                    viol.append(("C03:json:line-order:%s" % sig_kinds, case, {"record": recno - 1, "announced": have, "created_with": want}))
                    out = "line-diff"
                    break
        # (2) real reader (judges the record of this event; masked if an earlier record already fails)
        _n[0] += 1
        p = os.path.join(os.environ["VERIF_SCRATCH"], "c03-%d-%d.json" % (os.getpid(), _n[0]))
        with open(p, "w") as f:
            f.write(datas[w])
        try:
            try:
                rd = JsonfileReader(p)
                items, exc = drain(rd)
                rd.close()
            except Exception as e:  # noqa: BLE001
                items, exc = [], e
            real = obs_list(items)
            if exc is None:
                try:
                    rd2 = JsonfileReader(p)
                    items2, exc2 = drain_resumed(rd2)
                    rd2.close()
                except Exception as e:  # noqa: BLE001
                    items2, exc2 = [], e
                if exc2 is not None or obs_list(items2) != real:
                    viol.append(("C03:json:reader-resumed-differs:%s" % sig_kinds, case, {"error": repr(exc2)[:200], "read": len(items2), "in_one_go": len(real)}))
            if exc is not None and len(real) < len(expected) - 1:
                out += "/reader-masked"
            elif exc is not None:
                viol.append(("C03:json:reader-raises:%s:%s" % (sig_kinds, type(exc).__name__), case, {"error": repr(exc)[:300]}))
                out += "/reader-raise"
            elif len(real) != len(expected):
                viol.append(("C03:json:reader-count:%s" % sig_kinds, case, {"read": len(real), "written": len(expected)}))
            else:
                d = recs.locate(expected[-1], real[-1])
                if d:
                    viol.append(("C03:json:reader:%s:%s" % (sig_kinds, d[2]), case, {"where": d[0], "diff": d[2]}))
                    out += "/reader-diff"
        finally:
            os.unlink(p)
        for o in range(m):
            if o != w and before is not None and datas[o] != before[o]:
                viol.append(("C03:json:other-writer-changed", case, {"writer": o}))
        out = k + ":" + out
    for wr in writers:
        wr.fp = None
    return {"canon": canon, "viol": viol, "out": out, "enabled": _enabled(conf)}


def run_tee(case):
    """The SAME record objects written to several writers alive at once (a tee): every stream must announce what it needs itself."""
    from flow.record import RecordStreamReader, RecordStreamWriter
    from flow.record.adapter.jsonfile import JsonfileReader, JsonfileWriter

    h = jhash(case)
    viol = []
    outs = []
    objs = [recs.build_record(KINDS[k]) for k in case["kinds"]]
    want = obs_list(objs)
    for packer in ("binary", "json"):
        if packer == "json" and any(k.startswith("G") or k.startswith("F2_") for k in case["kinds"]):
            continue
        n = case["writers"]
        bufs = [io.BytesIO() if packer == "binary" else io.StringIO() for _ in range(n)]
        ws = [RecordStreamWriter(b) if packer == "binary" else JsonfileWriter(b) for b in bufs]
        order = [(wi, r) for r in objs for wi in range(n)] if case["order"] == "record-major" else [(wi, r) for wi in range(n) for r in objs]
        try:
            for wi, r in order:
                ws[wi].write(r)
            for w_ in ws:
                w_.flush()
        except Exception as e:  # noqa: BLE001
            viol.append(("C03:tee:%s:write-raises-%s" % (packer, type(e).__name__), case, {"error": repr(e)[:200]}))
            continue
        for wi, b in enumerate(bufs):
            try:
                if packer == "binary":
                    got = list(RecordStreamReader(io.BytesIO(b.getvalue())))
                else:
                    _n[0] += 1
                    p_ = os.path.join(os.environ["VERIF_SCRATCH"], "c03t-%d-%d.json" % (os.getpid(), _n[0]))
                    with open(p_, "w") as f:
                        f.write(b.getvalue())
                    try:
                        rd = JsonfileReader(p_)
                        got = list(rd)
                        rd.close()
                    finally:
                        os.unlink(p_)
            except Exception as e:  # noqa: BLE001
                viol.append(("C03:tee:%s:writer-%d-unreadable:%s" % (packer, wi, type(e).__name__), case, {"error": repr(e)[:200]}))
                outs.append("tee:unreadable")
                continue
            if obs_list(got) != want:
                viol.append(("C03:tee:%s:writer-%d-differs" % (packer, wi), case, {"read": len(got), "written": len(want)}))
                outs.append("tee:diff")
            else:
                outs.append("tee:ok")
        for w_ in ws:
            w_.fp = None
    return {"ev": len(outs), "h": h, "nt": True, "out": sorted(set(outs)), "viol": viol}


def _desc_of(r):
    return [r._desc.name, [list(t) for t in r._desc.get_field_tuples()]]


def run_long(case):
    """A long history (mc.streamspace generators: one hot type between hundreds of incidental ones, a sweep over old types next to
    new ones, many types, periodic patterns, a first record above a size threshold) through ONE writer of each packer; every record
    must be preceded by its definition on the wire (reference decoder / line parser) and come back with the descriptor it had."""
    from flow.record import RecordStreamReader, RecordStreamWriter
    from flow.record.adapter.jsonfile import JsonfileReader, JsonfileWriter

    from mc import streamspace

    specs = streamspace.expand(case)
    records = []
    for sp in specs:
        if sp.get("xfail") or (case["packer"] == "json" and "group" in sp):
            continue
        records.append(recs.build_record(sp))
    expected = obs_list(records)
    viol = []
    outs = []
    ev = 0
    gen = "%s" % case["gen"][0]
    if case["packer"] == "binary":
        buf = io.BytesIO()
        w = RecordStreamWriter(buf)
        for r in records:
            w.write(r)
        w.flush()
        data = buf.getvalue()
        ev += 1
        try:
            got, _ = refcodec.decode_stream(data)
            d = recs.list_diff(expected, got)
            if d:
                viol.append(("C03:long:binary:ref-decode:%s:%s" % (gen, d[3]), case, {"record_index": d[0], "where": d[1]}))
        except refcodec.FormatError as e:
            viol.append(("C03:long:binary:ref-format:%s:%s" % (gen, str(e).split("(")[0].strip()[:40]), case, {"error": str(e)[:200]}))
        for how in (drain, drain_resumed):
            ev += 1
            items, exc = how(RecordStreamReader(io.BytesIO(data)))
            if exc is not None:
                viol.append(("C03:long:binary:reader-raises:%s:%s" % (gen, type(exc).__name__), case, {"error": repr(exc)[:200], "read_before": len(items), "written": len(records)}))
                continue
            d = recs.list_diff(expected, obs_list(items))
            if d:
                viol.append(("C03:long:binary:reader:%s:%s" % (gen, d[3]), case, {"record_index": d[0], "where": d[1]}))
            else:
                bad = [i for i, (a, b) in enumerate(zip(records, items)) if _desc_of(a) != _desc_of(b)]
                if bad:
                    viol.append(("C03:long:binary:reader:%s:descriptor-differs" % gen, case, {"record_index": bad[0], "created_with": _desc_of(records[bad[0]]), "read_back": _desc_of(items[bad[0]])}))
        outs.append("binary")
    else:
        sio = io.StringIO()
        w = JsonfileWriter(sio)
        for r in records:
            w.write(r)
        w.flush()
        text = sio.getvalue()
        # line level: the last definition announced for a record's identifier before its line is the one it was created with
        reg = {}
        recno = 0
        for e in json_events(text):
            if e[0] == "DESC":
                reg[e[1]] = (e[2], [list(t) for t in e[3]])
            else:
                if recno >= len(records):
                    viol.append(("C03:long:json:extra-record-line:%s" % gen, case, {}))
                    break
                have = reg.get(e[1])
                if have is None or [have[0], have[1]] != _desc_of(records[recno]):
                    viol.append(("C03:long:json:line-order:%s" % gen, case, {"record": recno, "announced": have, "created_with": _desc_of(records[recno])}))
                    break
                recno += 1
        _n[0] += 1
        p = os.path.join(os.environ["VERIF_SCRATCH"], "c03-long-%d-%d.json" % (os.getpid(), _n[0]))
        with open(p, "w") as f:
            f.write(text)
        try:
            for how in (drain, drain_resumed):
                ev += 1
                try:
                    rd = JsonfileReader(p)
                    items, exc = how(rd)
                    rd.close()
                except Exception as e:  # noqa: BLE001
                    items, exc = [], e
                if exc is not None:
                    viol.append(("C03:long:json:reader-raises:%s:%s" % (gen, type(exc).__name__), case, {"error": repr(exc)[:200], "read_before": len(items), "written": len(records)}))
                    continue
                if len(items) != len(records):
                    viol.append(("C03:long:json:reader-count:%s" % gen, case, {"read": len(items), "written": len(records)}))
                    continue
                bad = [i for i, (a, b) in enumerate(zip(records, items)) if _desc_of(a) != _desc_of(b)]
                if bad:
                    viol.append(("C03:long:json:reader:%s:descriptor-differs" % gen, case, {"record_index": bad[0], "created_with": _desc_of(records[bad[0]]), "read_back": _desc_of(items[bad[0]])}))
        finally:
            os.unlink(p)
        outs.append("json")
    seen = set()
    viol = [v for v in viol if not (v[0] in seen or seen.add(v[0]))]
    return {"ev": ev, "h": jhash(case), "nt": True, "out": "long:%s:%s:%s" % (case["packer"], gen, "viol" if viol else "ok"), "viol": viol}


def long_cases(tier):
    from mc import streamspace

    for c in streamspace.long_cases(tier):
        g = c["gen"]
        if g[0] in ("sizes", "align", "stride"):
            continue  # (size walks without a change of type are C01's / C04's matter)
        yield dict(c, kind="long", packer="binary")
        # JSON lines has no grouped encoding and refuses nothing the shapes with _BAD carry
        names = g[1] if g[0] == "periodic" else []
        if g[0] == "periodic" and any(n.startswith("G") or n.endswith("_BAD") or n in ("BIG", "C") for n in names):
            continue
        if g[-1] == "grouped":
            continue
        yield dict(c, kind="long", packer="json")


def run_case(case):
    """Replay: judge every prefix of the history."""
    if case.get("kind") == "tee":
        return run_tee(case)
    if case.get("kind") == "long":
        return run_long(case)
    if case.get("kind") == "tla-edge":
        ok, got, _ = replay_edge((case["path"], case.get("model_steps"), case["writers"]))
        return {"ev": 1, "h": jhash(case), "viol": [] if ok else [("C03:tla:implementation-diverges-from-model:%s" % case["path"][-1][1], case, {"implementation_frames": got})]}
    CONF.update({"packer": case["packer"], "m": case["m"], "kinds": list(KINDS), "werror": bool(case.get("werror"))})
    viol = []
    hist = case["history"]
    for i in range(1, len(hist) + 1):
        viol += step(hist[:i])["viol"]
    return {"ev": len(hist), "h": jhash(case), "viol": viol}


# ---- TLA+ leg: TLC explores tla/DescriptorProtocol.tla; EVERY edge of its state graph is replayed on real writers -------------

TLA_KIND = {"A": "A", "B": "B", "A2": "A2", "C": "C", "NA": "N_A", "NB": "N_B", "NX": "N_X", "G": "G", "GB": "G_B", "GAB": "G_AB"}
TLA_DESC = {("t/x", (("stringlist", "a"), ("string", "b"))): "A", ("t/x", (("string", "a"), ("string", "listb"))): "B", ("t/x", (("varint", "n"),)): "A2",
            ("t/c", (("path", "p"),)): "C", ("t/holder", (("record", "sub"),)): "HA", ("t/holders", (("record[]", "subs"),)): "HX", ("t/nestedonly", (("varint", "q"),)): "X"}
_TLA = {}


def run_tlc(cfg, workers):
    import re
    import shutil
    import subprocess
    import tempfile

    root = os.path.join(os.path.dirname(os.path.dirname(os.path.abspath(__file__))), "tla")
    d = tempfile.mkdtemp(prefix="tlc-", dir=os.environ["VERIF_SCRATCH"])
    try:
        for f in ("DescriptorProtocol.tla", cfg):
            shutil.copy(os.path.join(root, f), d)
        p = subprocess.run(["tlc", "-workers", str(min(4, workers or 4)), "-noGenerateSpecTE", "-metadir", os.path.join(d, "meta"), "-config", cfg,
                            "-dump", "dot,actionlabels", os.path.join(d, "graph"), "DescriptorProtocol.tla"], cwd=d, capture_output=True, text=True, timeout=1500)
        out = p.stdout
        m = re.search(r"(\d+) states generated, (\d+) distinct states found", out)
        violated = "Invariant" in out and "is violated" in out
        nodes, edges = {}, []
        init = None
        with open(os.path.join(d, "graph.dot")) as f:
            for line in f:
                me = re.match(r'^(-?\d+) -> (-?\d+) \[label="Write\(\\"(\w+)\\",\\"(\w+)\\"\)"', line)
                if me:
                    edges.append((me.group(1), me.group(2), me.group(3), me.group(4)))
                    continue
                mn = re.match(r'^(-?\d+) \[label="(.*?)(?<!\\)"', line)
                if mn:
                    lab = mn.group(2)
                    a = lab.find("last = ")
                    b = lab.find("\\n", a) if a >= 0 else -1
                    seg = lab[a:b if b >= 0 else len(lab)] if a >= 0 else ""
                    frames = re.findall(r'<<\\"(\w+)\\", \\"(\w+)\\">>', seg)
                    nodes[mn.group(1)] = {"last": [list(x) for x in frames], "bad": "bad = TRUE" in lab}
                    if "style = filled" in line and init is None:
                        init = mn.group(1)
        return {"stdout_tail": out[-600:], "generated": int(m.group(1)) if m else None, "distinct": int(m.group(2)) if m else None,
                "violated": violated, "nodes": nodes, "edges": edges, "init": init}
    finally:
        shutil.rmtree(d, ignore_errors=True)


TLA_FIELDS = {v: k for k, v in TLA_DESC.items()}  # model descriptor -> (name, fields)


def _real_ident(d):
    name, fields = TLA_FIELDS[d]
    return (name, refcodec.desc_hash(name, [tuple(f) for f in fields]))


def replay_edge(job):
    """job = (path of [writer, kind] pairs incl. the edge's own action, model frames of every step of the path, writers).

    Conformance is a refinement, not byte equality: after the edge the registry a reader of every writer's stream holds must equal
    the registry the model predicts (last announcement per identifier wins), and the step must have put exactly one record frame
    on the wire, as its last frame. A writer that announces more often than the model (redundantly) still conforms; one that
    skips or reorders an announcement the model needs does not. Frames identical to the model's are counted separately."""
    from flow.record import RecordStreamWriter

    path, model_steps, wnames = job
    bufs = {w: io.BytesIO() for w in wnames}
    writers = {w: RecordStreamWriter(bufs[w]) for w in wnames}
    before = 0
    for i, (w, k) in enumerate(path):
        if i == len(path) - 1:
            before = len(bufs[w].getvalue())
        writers[w].write(recs.build_record(KINDS[TLA_KIND[k]]))
    w, k = path[-1]

    def frames_of(data, kind):
        out = []
        for _, _, payload in refcodec.split_frames(data):
            v = refcodec.mp_one(payload)
            if isinstance(v, refcodec.Bin):
                continue  # stream header
            st, val = refcodec.mp_one(v.data)
            if st == refcodec.T_DESC:
                name, fields = val
                out.append(["D", TLA_DESC.get((name, tuple(tuple(f) for f in fields)), "?%s" % name)])
            else:
                out.append(["R", kind])
        return out

    got = frames_of(bufs[w].getvalue()[before:], k)
    ok = bool(got) and got[-1][0] == "R" and sum(1 for f in got if f[0] == "R") == 1
    if model_steps is not None:
        for wn in wnames:
            model_reg = {}
            for (pw, _), frames in zip(path, model_steps):
                if pw == wn:
                    for f in frames:
                        if f[0] == "D":
                            model_reg[_real_ident(f[1])] = f[1]
            impl_reg = {}
            for f in frames_of(bufs[wn].getvalue(), "?"):
                if f[0] == "D":
                    if f[1] not in TLA_FIELDS:
                        ok = False
                        continue
                    impl_reg[_real_ident(f[1])] = f[1]
            if impl_reg != model_reg:
                ok = False
    for wr in writers.values():
        wr.fp = None
    exact = model_steps is not None and got == model_steps[-1]
    return ok, got, exact


def tla_leg(run, cfg, workers, label):
    import multiprocessing as mp

    g = run_tlc(cfg, workers)
    nodes, edges, init = g["nodes"], g["edges"], g["init"]
    if not nodes or init is None:
        run.internal_errors.append("TLC produced no state graph for %s: %s" % (cfg, g["stdout_tail"][-300:]))
        return {}
    # shortest path (as action list) to every node
    adj = {}
    for s_, t_, w, k in edges:
        adj.setdefault(s_, []).append((t_, w, k))
    path = {init: []}
    psteps = {init: []}  # model frames of every step along the shortest path
    order = [init]
    for n in order:
        for t_, w, k in adj.get(n, ()):
            if t_ not in path:
                path[t_] = path[n] + [[w, k]]
                psteps[t_] = psteps[n] + [nodes[t_]["last"]]
                order.append(t_)
    wnames = sorted({w for _, _, w, _ in edges})
    jobs = [(path[s_] + [[w, k]], psteps[s_] + [nodes[t_]["last"]], wnames) for s_, t_, w, k in edges if s_ in path]
    ctx = mp.get_context("fork")
    diverged = 0
    exact_n = 0
    with ctx.Pool(workers or 16) as pool:
        for (ok, got, exact), job in zip(pool.imap(replay_edge, jobs, chunksize=256), jobs):
            exact_n += 1 if exact else 0
            if not ok:
                diverged += 1
                run.add_violation("C03:tla:implementation-diverges-from-model:%s" % job[0][-1][1], {"kind": "tla-edge", "path": job[0], "writers": job[2], "model_steps": job[1]},
                                  {"model_frames": job[1][-1], "implementation_frames": got})
    bad_nodes = [n for n, v in nodes.items() if v["bad"]]
    info = {"cfg": cfg, "tlc_states_generated": g["generated"], "tlc_distinct_states": g["distinct"], "graph_nodes": len(nodes), "graph_edges": len(edges),
            "edges_replayed_on_implementation": len(jobs), "edges_diverging": diverged, "edges_with_frames_identical_to_the_model": exact_n, "invariant_violated_in_model": g["violated"] or bool(bad_nodes)}
    if g["violated"] or bad_nodes:
        # a protocol defect found on the model: confirm it on the code with the shortest history that reaches a bad state
        n = min(bad_nodes, key=lambda x: len(path.get(x, [0] * 99))) if bad_nodes else None
        hist = path.get(n) if n else None
        info["model_counterexample"] = hist
        if hist:
            CONF.clear()
            CONF.update({"packer": "binary", "m": len(wnames), "kinds": list(KINDS)})
            widx = {w: i for i, w in enumerate(wnames)}
            h2 = [[widx[w], TLA_KIND[k]] for w, k in hist]
            res = step(h2)
            info["counterexample_confirmed_on_implementation"] = bool(res["viol"])
            for sig, case, detail in res["viol"]:
                run.add_violation(sig, case, detail)
            if not res["viol"]:
                run.add_violation("C03:tla:model-violation-not-reproduced-on-code:%s" % hist[-1][1], {"kind": "tla-edge", "path": hist, "writers": wnames}, {})
    run.extra.setdefault("tla", []).append(info)
    return info


def main(tier, seed, workers=None):
    run = Run(PROP, "model_checking", tier, seed, RULE)
    thorough = tier == "thorough"
    plans = [
        ("binary", 1, CORE, 12),
        ("binary", 1, SPECIAL, 12),
        ("binary", 1, DERIVED, 12),
        ("binary", 1, ODD, 12),
        ("json", 1, kinds_for("json", ODD), 12),
        ("binary+werror", 1, ["A", "B", "A2", "C", "N_A", "G", "G_B", "D_EXT", "AL2"], 12),
        ("json", 1, kinds_for("json", DERIVED), 12),
        ("json+werror", 1, ["A", "B", "A2", "C", "N_A", "D_EXT", "AL2"], 12),
        ("binary", 2, ["A", "A2", "B", "N_X", "G_Y"] if not thorough else ["A", "A2", "B", "C", "N_A", "N_X", "G", "G_Y"], 14),
        ("json", 1, kinds_for("json", CORE), 12),
        ("json", 1, kinds_for("json", SPECIAL), 12),
        ("json", 1, JSPECIAL, 12),
        ("json", 2, ["A", "A2", "B", "N_X"] if not thorough else kinds_for("json", ["A", "A2", "B", "C", "N_A", "N_X", "N_B"]), 14),
    ]
    if thorough:
        plans.append(("binary", 3, ["A", "B", "G_Y"], 9))
        plans.append(("json", 3, ["A", "B", "N_X"], 9))
    tot_s = tot_t = 0
    machines = []
    for packer, m, kinds, cap in plans:
        CONF.clear()
        CONF.update({"packer": packer.split("+")[0], "m": m, "kinds": kinds, "werror": packer.endswith("+werror")})
        s, t, fix, depth = bfs(run, step, cap, workers, label="%s m=%d: " % (packer, m), full_depth=3 if m == 1 else 2, budget=1500000 if thorough else 120000)
        machines.append({"packer": packer, "writers": m, "kinds": kinds, "states": s, "transitions": t, "fixpoint": fix, "depth": depth})
        tot_s += s
        tot_t += t
    # tee: one record object into 2 (3) writers alive at once
    from mc.space import explore

    tee_kinds = [k for k in KINDS if not k.endswith("_BAD") and k != "G_AB"]  # (G_AB is the known single-identifier finding)
    tee_cases = [{"kind": "tee", "kinds": [k], "writers": n, "order": o} for k in tee_kinds for n in (2, 3) for o in ("record-major", "writer-major")]
    tee_cases += [{"kind": "tee", "kinds": [k1, k2], "writers": 2, "order": o} for k1 in ("A", "G", "N_A", "G_Y", "G_NEST", "N_X") for k2 in ("B", "G_B", "N_B", "G_Y", "C") for o in ("record-major", "writer-major")]
    explore(run, tee_cases, run_tee, workers)
    # long histories through one writer (bounded registries, batching and size thresholds only show there)
    explore(run, long_cases(tier), run_long, workers, chunk=1)
    # TLA+ leg: model checked by TLC, every edge replayed against the implementation
    t1 = tla_leg(run, "DescriptorProtocol1.cfg" if not thorough else "DescriptorProtocol.cfg", workers, "tla")
    t2 = tla_leg(run, "DescriptorProtocolGAB.cfg", workers, "tla-gab") if thorough else {}
    tot_s += (t1.get("graph_nodes") or 0) + (t2.get("graph_nodes") or 0)
    tot_t += (t1.get("graph_edges") or 0) + (t2.get("graph_edges") or 0)
    run.states, run.transitions, run.traces = tot_s, tot_t, tot_t
    run.extra["machines"] = machines
    run.assumptions = ["canonical state = packer registries + reference reader registry; bytes already written are judged on the transition that produced them",
                       "JSON lines has no grouped encoding: grouped kinds are explored for the binary packer only"]
    return run.finish(lambda case: [v[0] for v in run_case(case)["viol"]])
