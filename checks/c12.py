"""C12 — record equality and hashing obey the value-object contract; scoped ignore configuration is restored."""
from __future__ import annotations

import itertools
import os
import subprocess
import sys

from mc import envleg, lit, recs
from mc.alphabets import LISTABLE, TYPE_ALPHABET, alphabet
from mc.recs import rs
from mc.report import Run, jhash
from mc.space import explore

PROP = "C12"
RULE = ("per field type (scalar and list): ALL ordered pairs of alphabet values as single-field records (one built normally, one rebuilt "
        "with a fresh descriptor object after clearing the class caches), plus descriptor variants (other name, extra field, other field "
        "type), nested and grouped wrappers and metadata variations, each under all 8 ignored-field configurations given three ways; "
        "laws checked: reflexive, symmetric, == agrees with the reference, != is its negation, nothing raises, equal => equal hash, set / "
        "dict membership; the scoped configuration machine is searched to a fixpoint. non-trivial = pair of accepted records")

IGNORE_SETS = [[], ["_generated"], ["_source"], ["x"], ["_generated", "_source"], ["_generated", "x"], ["_source", "x"], ["_generated", "_source", "x"]]


def ref_value_eq(a, b):
    """Equality of two field values by their documented content (never calls the record's _pack)."""
    from flow.record import GroupedRecord, Record
    from flow.record import fieldtypes as ft
    from flow.record.fieldtypes import net

    if a is None or b is None:
        return a is None and b is None
    if isinstance(a, GroupedRecord) or isinstance(b, GroupedRecord):
        return isinstance(a, GroupedRecord) and isinstance(b, GroupedRecord) and a.name == b.name and len(a.records) == len(b.records) and all(
            ref_record_eq(x, y, CURRENT_IGNORE[0]) for x, y in zip(a.records, b.records))
    if isinstance(a, Record) or isinstance(b, Record):
        return isinstance(a, Record) and isinstance(b, Record) and ref_record_eq(a, b, CURRENT_IGNORE[0])
    if isinstance(a, ft.digest) and isinstance(b, ft.digest):
        low = lambda x: x.lower() if isinstance(x, str) else x  # noqa: E731
        return (low(a.md5), low(a.sha1), low(a.sha256)) == (low(b.md5), low(b.sha1), low(b.sha256))
    if isinstance(a, (net.ipaddress, net.ipnetwork)) and type(a) is type(b):
        return a.val == b.val
    if isinstance(a, ft.command) and isinstance(b, ft.command):
        return type(a) is type(b) and ref_value_eq(a.executable, b.executable) and a.args == b.args
    if isinstance(a, list) and isinstance(b, list):
        return len(a) == len(b) and all(ref_value_eq(x, y) for x, y in zip(a, b))
    if isinstance(a, (ft.uint16, ft.uint32, ft.boolean)) and isinstance(b, (ft.uint16, ft.uint32, ft.boolean)):
        return a.value == b.value
    try:
        return bool(a == b)
    except Exception:  # noqa: BLE001
        return False


CURRENT_IGNORE = [()]


def ref_record_eq(a, b, ignore):
    if (a._desc.name, tuple(a._desc.get_field_tuples())) != (b._desc.name, tuple(b._desc.get_field_tuples())):
        return False
    for k in a.__slots__:
        if k in ignore:
            continue
        if not ref_value_eq(getattr(a, k), getattr(b, k)):
            return False
    return True


def ref_eq(a, b, ignore):
    from flow.record import GroupedRecord

    CURRENT_IGNORE[0] = tuple(ignore)
    if isinstance(a, GroupedRecord) or isinstance(b, GroupedRecord):
        return ref_value_eq(a, b)
    return ref_record_eq(a, b, ignore)


def laws(a, b, ignore, label, case, viol, want=None):
    """All laws on the ordered pair (a, b) under the *currently configured* ignore set."""
    try:
        eq_ab = a == b
        eq_ba = b == a
        ne_ab = a != b
    except Exception as e:  # noqa: BLE001
        viol.append(("C12:%s:eq-raises-%s" % (label, type(e).__name__), case, {"error": repr(e)[:200]}))
        return "eq-raise"
    ref = ref_eq(a, b, ignore) if want is None else want
    out = "eq" if eq_ab else "ne"
    if eq_ab != eq_ba:
        viol.append(("C12:%s:not-symmetric" % label, case, {"a==b": eq_ab, "b==a": eq_ba}))
    if bool(eq_ab) != ref:
        viol.append(("C12:%s:%s" % (label, "equal-but-values-differ" if eq_ab else "unequal-but-values-equal"), case, {"ignore": list(ignore)}))
    if bool(ne_ab) == bool(eq_ab):
        viol.append(("C12:%s:ne-not-negation" % label, case, {}))
    try:
        ha, hb = hash(a), hash(b)
        if eq_ab and ha != hb:
            viol.append(("C12:%s:equal-but-hash-differs" % label, case, {}))
        if eq_ab and (b not in {a} or {a: 1}.get(b) != 1):
            viol.append(("C12:%s:set-membership" % label, case, {}))
    except Exception as e:  # noqa: BLE001
        viol.append(("C12:%s:hash-raises-%s" % (label, type(e).__name__), case, {"error": repr(e)[:200]}))
        out += "/hash-raise"
    return out


def fresh_copy(spec):
    """Rebuild independently: new descriptor object, record class cache cleared."""
    from flow.record import base

    base._generate_record_class.cache_clear()
    recs.FRESH_DESCRIPTORS[0] = True
    try:
        return recs.build_record(spec)
    finally:
        recs.FRESH_DESCRIPTORS[0] = False


def set_ignore(how, s):
    from flow.record import base

    if how == "set":
        base.set_ignored_fields_for_comparison(s)
        return None
    cm = base.ignore_fields_for_comparison(s)
    cm.__enter__()
    return cm


def small(v):
    return not (v.startswith("S(") and ("65535" in v or "65536" in v))


def run_case(case):
    if case.get("env") and not envleg.in_env(case):
        return envleg.run_single("checks.c12", case)
    if case["kind"] == "type":
        return run_type(case)
    if case["kind"] == "scope":
        return run_scope(case)
    if case["kind"] == "env":
        return run_env(case)
    if case["kind"] == "appended":
        return run_appended(case)
    return run_structural(case)


def run_appended(case):
    """A typed list grown in place with a plain value against the twin whose list was built with that value."""
    from flow.record import base

    h = jhash(case)
    base.set_ignored_fields_for_comparison([])
    viol = []
    t, first, more = case["t"], case["first"], case["more"]
    try:
        a = recs.build_record(rs("s/app", [[t + "[]", "xs"], ["varint", "n"]], ["[%s]" % first, "1"]))
        for op in case["ops"]:
            if op == "append":
                a.xs.append(lit.ev(more))
            elif op == "extend":
                a.xs.extend([lit.ev(more)])
            elif op == "insert":
                a.xs.insert(len(a.xs), lit.ev(more))
            else:
                a.xs += [lit.ev(more)]
        b = fresh_copy(rs("s/app", [[t + "[]", "xs"], ["varint", "n"]], ["[%s]" % ", ".join([first] + [more] * len(case["ops"])), "1"]))
    except Exception as e:  # noqa: BLE001
        return {"ev": 1, "h": h, "nt": False, "out": "rejected:" + type(e).__name__}
    out = laws(a, b, (), "appended:%s[]" % t, case, viol, want=True)
    return {"ev": 1, "h": h, "nt": True, "out": "appended:" + out, "viol": viol, "count": {"pairs": 1}}


def run_type(case):
    from flow.record import base

    h = jhash(case)
    t = case["t"]
    vals = case["values"]
    viol = []
    outs = []
    n = 0
    specs = [rs("e/one", [[t, "x"]], [v]) for v in vals]
    built = []
    for sp in specs:
        try:
            built.append((sp, recs.build_record(sp)))
        except Exception:  # noqa: BLE001
            pass
    label = "value:" + t
    base.set_ignored_fields_for_comparison([])
    # hashing order matters for class-level caches: forwards then backwards
    for order in (built, built[::-1]):
        for sp, r in order:
            try:
                hash(r)
            except Exception as e:  # noqa: BLE001
                viol.append(("C12:%s:hash-raises-%s" % (label, type(e).__name__), dict(case, values=[sp["values"][0]]), {"error": repr(e)[:200]}))
    for (sa, a), (sb, b) in itertools.product(built, repeat=2):
        n += 1
        sub = dict(case, values=[sa["values"][0], sb["values"][0]])
        if sa is sb:
            b = fresh_copy(sb)
            if a != a or not (a == a):
                viol.append(("C12:%s:not-reflexive" % label, sub, {}))
        outs.append(laws(a, b, (), label, sub, viol))
    # ignored-field configurations on a reduced set of pairs: same value, different value, different metadata
    if built:
        sa, a = built[min(1, len(built) - 1)]
        sb, b = built[-1]
        a2 = fresh_copy(dict(sa, meta={"_source": "'other'", "_generated": "dt(2001,1,1,tz=UTC)"}))
        for ign in IGNORE_SETS:
            for how in ("set", "ctx"):
                cm = set_ignore(how, ign)
                try:
                    for x, y, nm in ((a, fresh_copy(sa), "same"), (a, b, "other-value"), (a, a2, "other-metadata")):
                        n += 1
                        outs.append(laws(x, y, ign, "%s:ignore" % label, dict(case, values=[sa["values"][0], sb["values"][0]], ignore=ign, how=how, pair=nm), viol))
                finally:
                    if cm is not None:
                        cm.__exit__(None, None, None)
                    base.set_ignored_fields_for_comparison([])
    for r in (built[0][1],) if built else ():
        for other in (None, 1, "x", (), object()):
            try:
                if r == other or not (r != other):
                    viol.append(("C12:%s:equal-to-non-record" % label, case, {"other": repr(other)}))
            except Exception as e:  # noqa: BLE001
                viol.append(("C12:%s:compare-with-non-record-raises-%s" % (label, type(e).__name__), case, {}))
    seen = set()
    v2 = [v for v in viol if not (v[0] in seen or seen.add(v[0]))]
    return {"ev": max(n, 1), "h": h, "nt": len(built) > 1, "out": ["%s:%s" % (t.split("[")[0] if False else "pair", o) for o in sorted(set(outs))], "viol": v2,
            "count": {"pairs": n}, "sample": {"kind": "type", "t": t, "values": vals[:3]} if int(h, 16) % 7 == 0 else None}


def run_structural(case):
    from flow.record import GroupedRecord, base

    h = jhash(case)
    viol = []
    outs = []
    base.set_ignored_fields_for_comparison([])
    v = case["v"]
    t = case["t"]
    A = rs("s/a", [[t, "x"], ["varint", "n"]], [v, "1"])
    A_v2 = rs("s/a", [[t, "x"], ["varint", "n"]], [v, "2"])
    variants = {
        "copy": (A, True), "other-value": (A_v2, False),
        "other-name": (rs("s/b", [[t, "x"], ["varint", "n"]], [v, "1"]), False),
        "extra-field": (rs("s/a", [[t, "x"], ["varint", "n"], ["string", "more"]], [v, "1", "None"]), False),
        "other-field-type": (rs("s/a", [[t, "x"], ["filesize", "n"]], [v, "1"]), False),
        "field-order": (rs("s/a", [["varint", "n"], [t, "x"]], ["1", v]), False),
    }
    # two type names with one Python-safe class name ('/' vs '_'), identical fields and values: different descriptors
    U1 = rs("s/u_v", [[t, "x"], ["varint", "n"]], [v, "1"])
    U2 = rs("s/u/v", [[t, "x"], ["varint", "n"]], [v, "1"])
    try:
        a = recs.build_record(A)
    except Exception as e:  # noqa: BLE001
        return {"ev": 1, "h": h, "nt": False, "out": "rejected:" + type(e).__name__}
    C = rs("s/c", [["string", "c"]], ["'cc'"])
    c = recs.build_record(C)
    n = 0
    try:
        u1 = recs.build_record(U1)
        u2 = recs.build_record(U2)
        u1b = fresh_copy(U1)
        outs.append(laws(u1, u2, (), "variant:slash-vs-underscore-name", dict(case, variant="slash-vs-underscore"), viol, want=False))
        outs.append(laws(u1, u1b, (), "variant:slash-vs-underscore-name", dict(case, variant="slash-vs-underscore-copy"), viol))
    except Exception as e:  # noqa: BLE001
        viol.append(("C12:variant:slash-vs-underscore-name:raises-%s" % type(e).__name__, case, {"error": repr(e)[:200]}))
    # hashes must follow the value: hash first, then change a member / the configuration, then compare with an equal rebuilt object
    try:
        from flow.record import GroupedRecord as _G

        m1, m2 = recs.build_record(A), recs.build_record(C)
        g = _G("s/gm", [m1, m2])
        hash(g), hash(m1)
        m2.c = "changed"
        m1.n = 77
        g_same = _G("s/gm", [fresh_copy(dict(A, values=[v, "77"])), fresh_copy(dict(C, values=["'changed'"]))])
        outs.append(laws(g, g_same, (), "mutated-after-hash:grouped", dict(case, variant="mutated-after-hash"), viol))
        outs.append(laws(m1, fresh_copy(dict(A, values=[v, "77"])), (), "mutated-after-hash:record", dict(case, variant="mutated-after-hash"), viol))
        g2 = _G("s/gm", [recs.build_record(A), recs.build_record(C)])
        g3 = _G("s/gm", [fresh_copy(dict(A, meta={"_source": "'elsewhere'"})), fresh_copy(C)])
        hash(g2), hash(g3)
        cm = set_ignore("ctx", ["_source", "_generated"])
        try:
            outs.append(laws(g2, g3, ["_source", "_generated"], "config-changed-after-hash:grouped", dict(case, variant="config-after-hash"), viol))
        finally:
            cm.__exit__(None, None, None)
        outs.append(laws(g2, g3, (), "config-changed-after-hash:grouped", dict(case, variant="config-after-hash-restored"), viol))
    except Exception as e:  # noqa: BLE001
        viol.append(("C12:mutated-after-hash:raises-%s" % type(e).__name__, case, {"error": repr(e)[:200]}))
    for name, (spec, want) in variants.items():
        b = fresh_copy(spec)
        n += 1
        outs.append(laws(a, b, (), "variant:" + name, dict(case, variant=name), viol, want=want if name != "copy" else None))
        # nested and grouped wrappers around the pair
        for wrap in ("record", "record[]", "grouped", "grouped-swapped"):
            n += 1
            if wrap == "record":
                wa = recs.descriptor("s/holder", [["record", "sub"]])(sub=a, _generated=a._generated)
                wb = recs.descriptor("s/holder", [["record", "sub"]])(sub=b, _generated=a._generated)
            elif wrap == "record[]":
                wa = recs.descriptor("s/holders", [["record[]", "subs"]])(subs=[a, c], _generated=a._generated)
                wb = recs.descriptor("s/holders", [["record[]", "subs"]])(subs=[b, c], _generated=a._generated)
            elif wrap == "grouped":
                wa, wb = GroupedRecord("s/g", [a, c]), GroupedRecord("s/g", [b, fresh_copy(C)])
            else:
                wa, wb = GroupedRecord("s/g", [a, c]), GroupedRecord("s/g", [fresh_copy(C), b])
            outs.append(laws(wa, wb, (), "wrapped:%s" % wrap, dict(case, variant=name, wrap=wrap), viol))
            if name in ("copy", "other-value") and wrap in ("record", "record[]"):
                # the inner records differ (at most) in n: with n ignored the pair is equal, inner and outer, and must hash alike
                cm = set_ignore("ctx", ["n"])
                try:
                    outs.append(laws(wa, wb, ["n"], "wrapped:%s:inner-differs-in-ignored-field" % wrap, dict(case, variant=name, wrap=wrap, ignore=["n"]), viol))
                finally:
                    cm.__exit__(None, None, None)
            try:
                if not (wa == wa) or wa != wa:
                    viol.append(("C12:wrapped:%s:not-reflexive" % wrap, dict(case, wrap=wrap), {}))
            except Exception:  # noqa: BLE001
                pass
        if name in ("copy", "other-value"):
            # grouped pairs whose members differ (at most) in ignored fields: the differing member second, the ignored name in
            # both members, a reserved field, a group built from a group
            D1, D2 = rs("s/d", [["varint", "n"], ["string", "d"]], ["5", "'dd'"]), rs("s/d", [["varint", "n"], ["string", "d"]], ["6", "'dd'"])
            shapes = {
                "second-member": (lambda: GroupedRecord("s/g2", [fresh_copy(C), a]), lambda: GroupedRecord("s/g2", [fresh_copy(C), b]), ["n"]),
                "both-members": (lambda: GroupedRecord("s/g3", [a, fresh_copy(D1)]), lambda: GroupedRecord("s/g3", [b, fresh_copy(D2)]), ["n"]),
                "reserved-in-second": (lambda: GroupedRecord("s/g4", [fresh_copy(C), fresh_copy(A)]),
                                       lambda: GroupedRecord("s/g4", [fresh_copy(C), fresh_copy(dict(A, meta={"_source": "'elsewhere'"}))]), ["_source", "_generated"]),
                "group-of-group": (lambda: GroupedRecord("s/gg", [GroupedRecord("s/g2", [fresh_copy(C), a]), fresh_copy(D1)]),
                                   lambda: GroupedRecord("s/gg", [GroupedRecord("s/g2", [fresh_copy(C), b]), fresh_copy(D2)]), ["n"]),
            }
            for sh, (mk_a, mk_b, ign) in shapes.items():
                n += 1
                try:
                    ga, gb = mk_a(), mk_b()
                    outs.append(laws(ga, gb, (), "grouped:%s" % sh, dict(case, variant=name, shape=sh), viol))
                    cm = set_ignore("ctx", ign)
                    try:
                        outs.append(laws(ga, gb, ign, "grouped:%s:ignored-field-differs" % sh, dict(case, variant=name, shape=sh, ignore=ign), viol))
                    finally:
                        cm.__exit__(None, None, None)
                except Exception as e:  # noqa: BLE001
                    viol.append(("C12:grouped:%s:raises-%s" % (sh, type(e).__name__), case, {"error": repr(e)[:200]}))
    seen = set()
    v2 = [x for x in viol if not (x[0] in seen or seen.add(x[0]))]
    return {"ev": n, "h": h, "nt": True, "out": sorted(set(outs)), "viol": v2, "count": {"pairs": n}, "sample": case if int(h, 16) % 13 == 0 else None}


# ---- scoped configuration machine ---------------------------------------------------------------------------------------

SETS = [[], ["_generated"], ["_source", "x"]]


FORMS = {
    "list": lambda names: list(names), "set": lambda names: set(names), "tuple": lambda names: tuple(names), "frozenset": lambda names: frozenset(names),
    "generator": lambda names: (n for n in names), "iter": lambda names: iter(list(names)), "map": lambda names: map(str, names),
    "dict_keys": lambda names: dict.fromkeys(names).keys(),
}


def run_scope(case):
    """events: ['set', i] | ['enter', i] | ['exit'] | ['exit-exc']  (well nested). Invariant after every event."""
    from flow.record import base

    h = jhash(case)
    viol = []
    base.set_ignored_fields_for_comparison([])
    stack = []  # (cm, value at enter)
    made = []
    states = []
    if set(base.IGNORE_FIELDS_FOR_COMPARISON):
        viol.append(("C12:scope:set:not-applied", case, {"step": -1, "got": sorted(base.IGNORE_FIELDS_FOR_COMPARISON), "want": []}))
    try:
        for i, ev in enumerate(case["events"]):
            form = FORMS[case.get("form", "list")]
            if ev[0] == "set":
                base.set_ignored_fields_for_comparison(form(SETS[ev[1]]))
                want = set(SETS[ev[1]])
            elif ev[0] == "make":
                # the scope object is created now and entered later (scope = ignore_fields_for_comparison(...); ...; with scope:)
                made.append((base.ignore_fields_for_comparison(form(SETS[ev[1]])), ev[1]))
                want = set(base.IGNORE_FIELDS_FOR_COMPARISON)
            elif ev[0] == "enter-made":
                if not made:
                    continue
                cm, which = made.pop()
                before = set(base.IGNORE_FIELDS_FOR_COMPARISON)
                cm.__enter__()
                stack.append((cm, before))
                want = set(SETS[which])
            elif ev[0] == "enter":
                before = set(base.IGNORE_FIELDS_FOR_COMPARISON)
                cm = base.ignore_fields_for_comparison(form(SETS[ev[1]]))
                cm.__enter__()
                stack.append((cm, before))
                want = set(SETS[ev[1]])
            else:
                cm, before = stack.pop()
                if ev[0] == "exit":
                    cm.__exit__(None, None, None)
                elif ev[0] in ("exit-kbd", "exit-genexit", "exit-sysexit"):
                    # the body is left by an exception that is no Exception subclass (Ctrl-C, a generator closed early, sys.exit)
                    kind = {"exit-kbd": KeyboardInterrupt, "exit-genexit": GeneratorExit, "exit-sysexit": SystemExit}[ev[0]]
                    err = kind()
                    try:
                        cm.__exit__(kind, err, None)
                    except BaseException as e:  # noqa: BLE001
                        if e is not err:
                            raise
                else:
                    err = ValueError("body failed")
                    try:
                        cm.__exit__(ValueError, err, None)
                    except ValueError:
                        pass
                want = before
            got = set(base.IGNORE_FIELDS_FOR_COMPARISON)
            if got != want:
                viol.append(("C12:scope:%s:%s" % (ev[0], "not-restored" if ev[0].startswith("exit") else "not-applied"), case,
                             {"step": i, "got": sorted(got), "want": sorted(want)}))
                break
            states.append(jhash([sorted(got), [sorted(b) for _, b in stack]]))
    finally:
        while stack:
            cm, _ = stack.pop()
            try:
                cm.__exit__(None, None, None)
            except Exception:  # noqa: BLE001
                pass
        base.set_ignored_fields_for_comparison([])
    return {"ev": len(case["events"]), "h": h, "nt": True, "out": "scope:%s" % ("ok" if not viol else "bad"), "viol": viol, "states": states,
            "count": {"scope_events": len(case["events"])}}


def scope_histories(depth):
    def rec(hist, open_n):
        if hist:
            yield hist
        if len(hist) == depth:
            return
        for i in range(len(SETS)):
            yield from rec(hist + [["set", i]], open_n)
            if open_n < 2:
                yield from rec(hist + [["enter", i]], open_n + 1)
        if open_n:
            yield from rec(hist + [["exit"]], open_n - 1)
            yield from rec(hist + [["exit-exc"]], open_n - 1)
            if len(hist) <= 2:
                for e in ("exit-kbd", "exit-genexit", "exit-sysexit"):
                    yield from rec(hist + [[e]], open_n - 1)

    yield from rec([], 0)


ENV_FIELDS = ["x", "x2", "sha256", "n_1", "UPPER", "n"]


def run_env(case):
    """FLOW_RECORD_IGNORE read at import: a child interpreter compares, for every field (names with digits, underscores, upper case) and
    every metadata field, two records that differ in that field only: equal iff the variable lists the field."""
    h = jhash(case)
    root = os.path.dirname(os.path.dirname(os.path.abspath(__file__)))
    code = (
        "import sys; sys.path.insert(0, %r)\n"
        "from flow.record import RecordDescriptor\nimport flow.record.base as b, datetime\n"
        "F = %r\n"
        "d = RecordDescriptor('e/env', [('string', f) for f in F])\n"
        "g1 = datetime.datetime(2020,1,1,tzinfo=datetime.timezone.utc); g2 = datetime.datetime(2021,1,1,tzinfo=datetime.timezone.utc)\n"
        "base = dict({f: 'v' for f in F}, _source='s1', _classification='c1', _generated=g1)\n"
        "a = d(**base)\n"
        "print(sorted(b.IGNORE_FIELDS_FOR_COMPARISON))\n"
        "out = []\n"
        "for f, other in [(f, 'w') for f in F] + [('_source', 's2'), ('_classification', 'c2'), ('_generated', g2)]:\n"
        "    o = d(**dict(base, **{f: other}))\n"
        "    out.append('%%s=%%s/%%s' %% (f, a == o, hash(a) == hash(o)))\n"
        "print(' '.join(out))\n" % (root, ENV_FIELDS))
    env = dict(os.environ)
    ign = case["ignore"]
    if ign:
        env["FLOW_RECORD_IGNORE"] = ",".join(ign)
    else:
        env.pop("FLOW_RECORD_IGNORE", None)
    p = subprocess.run([sys.executable, "-W", "ignore", "-c", code], env=env, capture_output=True, text=True)
    viol = []
    lines = p.stdout.strip().splitlines()
    want = " ".join("%s=%s/%s" % (f, f in ign, f in ign) for f in ENV_FIELDS + ["_source", "_classification", "_generated"])
    if p.returncode != 0 or len(lines) != 2:
        viol.append(("C12:env:subprocess-failed", case, {"stderr": p.stderr[-300:]}))
    elif lines[0] != repr(sorted(ign)) or lines[1] != want:
        viol.append(("C12:env:FLOW_RECORD_IGNORE-not-honoured", case, {"configured": lines[0], "results": lines[1], "want": want}))
    return {"ev": 1, "h": h, "nt": True, "out": "env:%s" % ("ok" if not viol else "bad"), "viol": viol}


def cases(tier, seed):
    thorough = tier == "thorough"
    for t in TYPE_ALPHABET:
        vals = [v for v in alphabet(t, seed) if small(v)]
        if not thorough:
            vals = vals[:14]
        if t == "datetime":
            # one instant under four offsets (equal values) next to a different instant with the same wall clock
            vals = vals + ["dt(2020,1,1,12,0,0,tz=UTC)", "dt(2020,1,1,14,0,0,tz=off(2))", "dt(2020,1,1,7,0,0,tz=off(5,neg=True))", "dt(2020,1,1,13,0,0,tz=Z('Europe/Amsterdam'))",
                           "dt(2020,1,1,12,0,0,tz=off(2))", "dt(2020,1,1,12,0,0)"]
        yield {"kind": "type", "t": t, "values": vals}
    yield {"kind": "type", "t": "datetime[]", "values": ["[dt(2020,1,1,12,0,0,tz=UTC)]", "[dt(2020,1,1,14,0,0,tz=off(2))]", "[dt(2020,1,1,12,0,0,tz=off(2))]", "[]",
                                                        "[dt(2020,1,1,12,0,0,tz=UTC), dt(2020,1,1,14,0,0,tz=off(2))]", "[dt(2020,1,1,14,0,0,tz=off(2)), dt(2020,1,1,12,0,0,tz=UTC)]"]}
    # size classes of container values: N dicts / N keys / N elements, spelt in two key orders and with one late difference
    for n in (2, 9, 63, 64, 65, 129, 1025) + ((4097,) if thorough else ()):
        yield {"kind": "type", "t": "dictlist", "values": ["[{'a': i, 'b': 2} for i in range(%d)]" % n, "[{'b': 2, 'a': i} for i in range(%d)]" % n,
                                                             "[{'a': i, 'b': 2 + (i == %d)} for i in range(%d)]" % (n - 1, n),
                                                             "[dict(('k%%d' %% i, i) for i in range(%d))]" % n, "[dict(('k%%d' %% i, i) for i in range(%d, -1, -1))]" % (n - 1),
                                                             "[dict(('k%%d' %% i, i + (i == %d)) for i in range(%d))]" % (n - 1, n)]}
        yield {"kind": "type", "t": "string[]", "values": ["['s%%d' %% i for i in range(%d)]" % n, "tuple('s%%d' %% i for i in range(%d))" % n, "['s%%d' %% (i + (i == %d)) for i in range(%d)]" % (n - 1, n)]}
        yield {"kind": "type", "t": "stringlist", "values": ["['s%%d' %% i for i in range(%d)]" % n, "['s%%d' %% (i + (i == %d)) for i in range(%d)]" % (n - 1, n)]}
        yield {"kind": "type", "t": "varint[]", "values": ["list(range(%d))" % n, "[int(i) for i in range(%d)]" % n, "list(range(1, %d))" % (n + 1)]}
    for t in LISTABLE:
        el = [v for v in alphabet(t, seed, with_none=False) if small(v)][:4]
        vals = ["None", "[]"] + ["[%s]" % e for e in el] + ["[%s, %s]" % (a, b) for a, b in itertools.product(el[:3], repeat=2)]
        yield {"kind": "type", "t": t + "[]", "values": vals}
    for t in TYPE_ALPHABET:
        for v in [x for x in alphabet(t, seed) if small(x)][:6]:
            yield {"kind": "struct", "t": t, "v": v}
    for t, first, more in (("net.ipaddress", "'10.0.0.1'", "'192.168.1.10'"), ("net.ipaddress", "'::1'", "'2001:db8::2'"), ("net.ipnetwork", "'10.0.0.0/8'", "'192.168.0.0/16'"),
                           ("path", "'/a'", "'/b/c'"), ("path", "'/a'", "windows_path('C:\\\\x')"), ("datetime", "dt(2020,1,1,tz=UTC)", "dt(2021,2,3,4,5,6,7,tz=off(2))"),
                           ("datetime", "dt(2020,1,1,tz=UTC)", "dt(2021,2,3,4,5,6)"), ("string", "'a'", "'b'"), ("string", "'a'", "b'by\\xff'"), ("varint", "1", "2**70"),
                           ("uint16", "1", "65535"), ("boolean", "True", "0"), ("bytes", "b'a'", "b'\\x00'"), ("float", "0.5", "2"), ("uri", "'http://a'", "'http://b/c'"),
                           ("digest", "('d41d8cd98f00b204e9800998ecf8427e', None, None)", "(None, 'da39a3ee5e6b4b0d3255bfef95601890afd80709', None)"),
                           ("command", "'ls -l'", "'cmd.exe /c dir'"), ("filesize", "1", "2**40")):
        for ops in (["append"], ["extend"], ["insert"], ["iadd"], ["append", "append"]):
            yield {"kind": "appended", "t": t, "first": first, "more": more, "ops": ops}
    for hist in scope_histories(6 if thorough else 5):
        yield {"kind": "scope", "events": hist}
    for i, j, k in itertools.product(range(len(SETS)), repeat=3):
        for closing in ("exit", "exit-exc"):
            yield {"kind": "scope", "events": [["set", i], ["make", j], ["set", k], ["enter-made"], [closing]]}
            yield {"kind": "scope", "events": [["make", j], ["set", k], ["enter-made"], ["set", i], [closing]]}
            yield {"kind": "scope", "events": [["make", j], ["enter", i], ["set", k], ["enter-made"], [closing], ["exit"]]}
    for form in FORMS:
        if form != "list":
            for hist in scope_histories(3):
                yield {"kind": "scope", "events": hist, "form": form}
    for ign in IGNORE_SETS + [["x2"], ["sha256", "x"], ["n_1"], ["UPPER"], ["x", "x2", "_generated"], ["sha256"], ["n", "n_1"], ["_classification", "UPPER", "x2"]]:
        yield {"kind": "env", "ignore": ign}


def main(tier, seed, workers=None):
    run = Run(PROP, "exploration", tier, seed, RULE)
    run.assumptions = ["reference equality = same (name, ordered fields) and Python equality of field values by documented content (digest triple, "
                       "address objects, command executable/args/flavour); NaN is unequal to NaN"]
    explore(run, cases(tier, seed), run_case, workers, chunk=8, reversed_pass=(tier == "thorough"))
    # the same machinery in child interpreters that were started with FLOW_RECORD_IGNORE set (read once, at import)
    shallow = [{"kind": "scope", "events": hst} for hst in scope_histories(4)] + [c for c in cases("quick", seed) if c["kind"] == "struct"][:40]
    for env in ({"FLOW_RECORD_IGNORE": "_generated,x"}, {"FLOW_RECORD_IGNORE": "_source"}):
        envleg.explore_env(run, "checks.c12", shallow, env, workers)
    if run.state_hashes:
        run.extra["scope_machine_states"] = len(run.state_hashes)
        run.extra["scope_machine_transitions"] = run.extra.get("scope_events", 0)
    return run.finish(lambda case: [v[0] for v in run_case(case)["viol"]])
