"""C18 — SQLite export keeps every record, independent of batch size (histories with an observer connection; commit model)."""
from __future__ import annotations

import datetime as _d
import itertools
import logging
import os
import sqlite3

from mc import recs
from mc.alphabets import alphabet
from mc.faults import drain
from mc.recs import rs
from mc.obs import obs_list
from mc.report import Run, jhash
from mc.space import explore

PROP = "C18"
RULE = ("all histories up to depth 5 (6 thorough) over {write A, write B, write A+ (same name, one more field), write A- (same name, "
        "fewer fields), flush, close} x batch sizes {1,2,3,1000} on the real SqliteWriter; after EVERY event an independent "
        "sqlite3 connection reads all tables; the visible rows must be a prefix of the write order whose length is the total at a "
        "legitimate commit point (new descriptor, flush, close, multiple of the batch size since start or since an earlier commit "
        "point); final content compared across batch sizes; plus value and name alphabets through SqliteReader. states = distinct "
        "(batch cursor, pending rows, schema, open/closed) tuples; non-trivial = history with at least one write")

KIND = {
    "A": lambda i: rs("sq/a", [["string", "s"], ["varint", "n"]], ["'a%d'" % i, str(i)]),
    "B": lambda i: rs("sq/b", [["bytes", "raw"], ["float", "f"]], ["b'b%d'" % i, "%d.5" % i]),
    "A+": lambda i: rs("sq/a", [["string", "s"], ["varint", "n"], ["string", "extra"]], ["'p%d'" % i, str(i), "'x%d'" % i]),
    "A-": lambda i: rs("sq/a", [["string", "s"]], ["'m%d'" % i]),
    # same name, same NUMBER of fields as A, one of them new
    "A~": lambda i: rs("sq/a", [["string", "s"], ["string", "owner"]], ["'t%d'" % i, "'o%d'" % i]),
}
# two types of one name, the same number of fields and coinciding (name, hash) identifiers, other columns
KIND["K1"] = lambda i: rs("sq/k", [["string", "a"], ["string", "bvarintc"]], ["'k%d'" % i, "'l%d'" % i])
KIND["K2"] = lambda i: rs("sq/k", [["varint", "astringb"], ["string", "c"]], [str(i), "'c%d'" % i])
EVENTS = ["A", "B", "A+", "A-", "A~", "flush", "close"]
# "bad": an A record whose integer does not fit SQLite's 64 bits: write() raises, the caller carries on
BAD = lambda i: rs("sq/a", [["string", "s"], ["varint", "n"]], ["'bad%d'" % i, "2**63"])  # noqa: E731
BATCHES = [1, 2, 3, 1000]
_n = [0]


def observe(path):
    """Independent connection: {table: (columns, rows)} with rows in rowid order."""
    con = sqlite3.connect(path, timeout=0.2)
    try:
        out = {}
        for (name,) in con.execute("SELECT name FROM sqlite_master WHERE type='table' ORDER BY name").fetchall():
            cols = [r[1] for r in con.execute('PRAGMA table_info("%s")' % name.replace('"', '""')).fetchall()]
            rows = con.execute('SELECT * FROM "%s" ORDER BY rowid' % name.replace('"', '""')).fetchall()
            out[name] = (cols, rows)
        return out
    finally:
        con.close()


def cell(v):
    """What a field value is stored as, by the property: text, 64-bit ints, floats, bytes natively, timestamps as ISO text, the
    rest as text form."""
    if v is None:
        return None
    if isinstance(v, _d.datetime):
        return v.isoformat()
    if isinstance(v, (bytes, bool, int, float)):
        if isinstance(v, bytes):
            return bytes(v)
        if isinstance(v, float):
            return float(v)
        return int(v)
    return str(v)


def run_history(hist, batch):
    """-> (violations, states seen, final content) for one batch size."""
    from flow.record.adapter.sqlite import SqliteWriter

    d = os.environ["VERIF_SCRATCH"]
    _n[0] += 1
    path = os.path.join(d, "c18-%d-%d.sqlite" % (os.getpid(), _n[0]))
    viol = []
    states = []
    w = SqliteWriter(path, batch_size=batch)
    written = []  # (table, {col: cell})
    seen_desc = set()
    commit_points = {0}  # legitimate visible totals so far
    closed = False
    try:
        for step, ev in enumerate(hist):
            if closed:
                break
            total_before = len(written)
            if ev in ("bad", "badtable"):
                # "bad": an integer SQLite cannot store; "badtable": a type whose table SQLite refuses to create (reserved sqlite_ prefix)
                r = recs.build_record(BAD(step) if ev == "bad" else rs("sqlite_reserved", [["string", "s"]], ["'t%d'" % step]))
                key = (r._desc.name, tuple(r._desc.get_field_tuples()))
                if key not in seen_desc:
                    seen_desc.add(key)
                    commit_points.add(total_before)
                try:
                    w.write(r)
                    viol.append(("C18:%s-accepted" % ("out-of-range-integer" if ev == "bad" else "reserved-table-name"), {"step": step, "batch": batch}))
                except Exception:  # noqa: BLE001  refused: nothing of it may be stored, nothing accepted before may be lost
                    pass
            elif ev in KIND:
                r = recs.build_record(KIND[ev](step))
                key = (r._desc.name, tuple(r._desc.get_field_tuples()))
                if key not in seen_desc:
                    seen_desc.add(key)
                    commit_points.add(total_before)  # (a) everything inserted before a new descriptor may be committed
                try:
                    w.write(r)
                except Exception as e:  # noqa: BLE001
                    viol.append(("C18:write-raises:%s:%s" % (ev, type(e).__name__), {"error": repr(e)[:200], "step": step, "batch": batch}))
                    break
                written.append((r._desc.name, {k: cell(getattr(r, k)) for k in r.__slots__}))
                total = len(written)
                # (d) a positive multiple of the batch size since the start or since some earlier legitimate commit point
                if any((total - c) > 0 and (total - c) % batch == 0 for c in list(commit_points)):
                    commit_points.add(total)
            elif ev == "flush":
                w.flush()
                commit_points.add(len(written))
            elif ev == "reopen":
                # the tool ran to its end; a second run appends to the same database file with a writer of its own
                w.close()
                commit_points.add(len(written))
                w = SqliteWriter(path, batch_size=batch)
                seen_desc = set()
            elif ev in ("close", "exit-exc", "exit"):
                if ev == "close":
                    w.close()
                elif ev == "exit":
                    w.__exit__(None, None, None)
                else:  # leaving a with-block by an exception still closes the writer: everything accepted must be there
                    w.__exit__(ValueError, ValueError("body failed"), None)
                closed = True
                commit_points.add(len(written))
            # observe
            try:
                seen = observe(path)
            except sqlite3.OperationalError as e:
                viol.append(("C18:observer-blocked:%s" % ev, {"error": str(e)[:100], "step": step, "batch": batch}))
                continue
            vis_total = sum(len(rows) for _, rows in seen.values())
            if vis_total not in commit_points:
                viol.append(("C18:partial-batch-visible:batch=%d" % batch, {"step": step, "event": ev, "visible": vis_total,
                                                                          "legitimate": sorted(commit_points), "written": len(written)}))
            if closed and vis_total != len(written):
                viol.append(("C18:not-all-committed-after-close:batch=%d" % batch, {"visible": vis_total, "written": len(written)}))
            # prefix of the write order, cell for cell
            prefix = written[:vis_total]
            per_table = {}
            for t, row in prefix:
                per_table.setdefault(t, []).append(row)
            for t, (cols, rows) in seen.items():
                want = per_table.get(t, [])
                if len(rows) != len(want):
                    viol.append(("C18:not-a-prefix", {"table": t, "rows": len(rows), "want": len(want), "step": step, "batch": batch}))
                    continue
                for got_row, want_row in zip(rows, want):
                    got = dict(zip(cols, got_row))
                    for c in cols:
                        if got[c] != want_row.get(c):
                            viol.append(("C18:cell-differs:%s" % c.lstrip("_")[:12], {"table": t, "column": c, "got": repr(got[c])[:60], "want": repr(want_row.get(c))[:60],
                                                                                 "step": step, "batch": batch}))
                            break
                    missing = [c for c in want_row if c not in cols]
                    if missing:
                        viol.append(("C18:column-missing", {"table": t, "missing": missing, "step": step, "batch": batch}))
            for t in per_table:
                if t not in seen:
                    viol.append(("C18:table-missing", {"table": t, "step": step, "batch": batch}))
            states.append(jhash([batch, w.count % batch if not closed else None, len(written) - vis_total,
                                 sorted((t, tuple(c)) for t, (c, _) in seen.items()), closed]))
        if not closed:
            try:
                w.close()
            except Exception as e:  # noqa: BLE001
                viol.append(("C18:close-raises:%s" % type(e).__name__, {"error": repr(e)[:200], "batch": batch}))
        final = observe(path)
        content = sorted((t, tuple(sorted(cols)), tuple(tuple(sorted(zip(cols, r), key=lambda kv: kv[0])) for r in rows)) for t, (cols, rows) in final.items())
        if sum(len(rows) for _, rows in final.values()) != len(written):
            viol.append(("C18:rows-lost-after-close:batch=%d" % batch, {"in_db": sum(len(rows) for _, rows in final.values()), "written": len(written)}))
        return viol, states, content, len(written)
    finally:
        try:
            if w.con:
                w.con.close()
                w.con = None
        except Exception:  # noqa: BLE001
            pass
        for suffix in ("", "-journal", "-wal", "-shm"):
            try:
                os.unlink(path + suffix)
            except OSError:
                pass


class _Sink(logging.Handler):
    """What a verbose run (rdump -vv) does with log records: every message is formatted."""

    def emit(self, record):
        record.getMessage()


def run_case(case):
    if not case.get("debug"):
        return _run_case(case)
    lg = logging.getLogger("flow.record")
    old, sink = lg.level, _Sink()
    lg.setLevel(logging.DEBUG)
    lg.addHandler(sink)
    old_prop, lg.propagate = lg.propagate, False
    try:
        return _run_case(case)
    finally:
        lg.setLevel(old)
        lg.removeHandler(sink)
        lg.propagate = old_prop


def run_overlap(case):
    """Two tables of one database read side by side through ONE reader (two read_table() generators advanced alternately, table_names()
    and a full iteration started in between), with more rows than the reader's batch size: every generator hands out its own table's
    rows, all of them, in order."""
    from flow.record.adapter.sqlite import SqliteReader, SqliteWriter

    h = jhash(case)
    na, nb, batch = case["rows"][0], case["rows"][1], case["batch"]
    d = os.environ["VERIF_SCRATCH"]
    _n[0] += 1
    path = os.path.join(d, "c18o-%d-%d.sqlite" % (os.getpid(), _n[0]))
    viol = []
    try:
        w = SqliteWriter(path)
        for i in range(max(na, nb)):
            if i < na:
                w.write(recs.build_record(KIND["A"](i)))
            if i < nb:
                w.write(recs.build_record(KIND["B"](i)))
        w.close()
        rd = SqliteReader(path, batch_size=batch)
        try:
            ita, itb = rd.read_table("sq/a"), rd.read_table("sq/b")
            ga, gb = [], []
            alive = [True, True]
            step = 0
            while any(alive):
                step += 1
                if case["poke"] == "table_names" and step % 2 == 0:
                    rd.table_names()
                if case["poke"] == "iter" and step == 2:
                    next(iter(rd), None)
                for k, (it, acc) in enumerate(((ita, ga), (itb, gb))):
                    if alive[k]:
                        try:
                            acc.append(next(it))
                        except StopIteration:
                            alive[k] = False
            wa = [("sq/a", i) for i in range(na)]
            if [(r._desc.name, int(r.n)) for r in ga if hasattr(r, "n")] != wa or len(ga) != na:
                viol.append(("C18:reader:overlapping-reads:table-a-differs:poke=%s" % case["poke"], case, {"got": len(ga), "want": na, "types": sorted({r._desc.name for r in ga})}))
            if [r._desc.name for r in gb] != ["sq/b"] * nb or [float(r.f) for r in gb] != [i + 0.5 for i in range(nb)]:
                viol.append(("C18:reader:overlapping-reads:table-b-differs:poke=%s" % case["poke"], case, {"got": len(gb), "want": nb, "types": sorted({r._desc.name for r in gb})}))
        except Exception as e:  # noqa: BLE001
            viol.append(("C18:reader:overlapping-reads:raises-%s" % type(e).__name__, case, {"error": repr(e)[:200]}))
        finally:
            rd.con.close()
    finally:
        for suffix in ("", "-journal"):
            try:
                os.unlink(path + suffix)
            except OSError:
                pass
    return {"ev": na + nb, "h": h, "nt": True, "out": "overlap:%s" % ("ok" if not viol else "bad"), "viol": viol, "count": {"observer_reads": 1}}


def run_reread(case):
    """ONE reader object that is iterated again after the writer (still open, flushed) wrote more - also a later version of a type that
    adds columns: every pass gives what a fresh reader gives at that moment."""
    from flow.record.adapter.sqlite import SqliteReader, SqliteWriter

    h = jhash(case)
    d = os.environ["VERIF_SCRATCH"]
    _n[0] += 1
    path = os.path.join(d, "c18r-%d-%d.sqlite" % (os.getpid(), _n[0]))
    viol = []
    w = SqliteWriter(path, batch_size=case["batch"])
    rd = None
    passes = 0
    try:
        for step, ev in enumerate(case["hist"]):
            if ev == "read":
                w.flush()
                if rd is None:
                    rd = SqliteReader(path)
                passes += 1
                try:
                    got = obs_list(list(rd))
                    fresh_rd = SqliteReader(path)
                    want = obs_list(list(fresh_rd))
                    fresh_rd.con.close()
                    if got != want:
                        dif = recs.list_diff(want, got)
                        viol.append(("C18:reader:pass-%d-differs-from-a-fresh-reader:%s" % (min(passes, 3), dif[3] if dif else "?"), case, {"step": step, "fresh": len(want), "same_reader": len(got)}))
                except Exception as e:  # noqa: BLE001
                    viol.append(("C18:reader:re-reading-raises-%s" % type(e).__name__, case, {"step": step, "error": repr(e)[:200]}))
            else:
                w.write(recs.build_record(KIND[ev](step)))
        w.close()
    except Exception as e:  # noqa: BLE001
        viol.append(("C18:reread:writer-raises-%s" % type(e).__name__, case, {"error": repr(e)[:200]}))
    finally:
        for c in (rd, w):
            try:
                if c is not None and c.con:
                    c.con.close()
            except Exception:  # noqa: BLE001
                pass
        for suffix in ("", "-journal"):
            try:
                os.unlink(path + suffix)
            except OSError:
                pass
    seen = set()
    v2 = [v for v in viol if not (v[0] in seen or seen.add(v[0]))]
    return {"ev": len(case["hist"]), "h": h, "nt": True, "out": "reread:%s" % ("ok" if not v2 else "bad"), "viol": v2, "count": {"observer_reads": passes}}


def _run_case(case):
    if case["kind"] == "reread":
        return run_reread(case)
    if case["kind"] == "overlap":
        return run_overlap(case)
    if case["kind"] == "hist":
        return run_hist_case(case)
    if case["kind"] == "value":
        return run_value(case)
    return run_names(case)


def run_hist_case(case):
    h = jhash(case)
    hist = case["hist"]
    viol = []
    states = []
    contents = {}
    nwritten = 0
    for b in BATCHES:
        v, st, content, nwritten = run_history(hist, b)
        for sig, detail in v:
            viol.append((sig, case, detail))
        states += st
        contents[b] = content
    base = contents[BATCHES[0]]
    for b in BATCHES[1:]:
        if contents[b] != base:
            viol.append(("C18:content-depends-on-batch-size:%d-vs-%d" % (BATCHES[0], b), case, {"batch": b}))
    seen = set()
    v2 = [v for v in viol if not (v[0] in seen or seen.add(v[0]))]
    return {"ev": len(BATCHES) * max(1, len(hist)), "h": h, "nt": nwritten > 0, "out": "hist:w%d:%s" % (min(nwritten, 4), "closed" if hist[-1] in ("close", "exit", "exit-exc") else "open"),
            "viol": v2, "states": states, "count": {"observer_reads": len(BATCHES) * len(hist), "histories_compared_across_batch_sizes": 1},
            "sample": case if int(h, 16) % 1999 == 0 else None}


# ---- values -------------------------------------------------------------------------------------------------------

FAITHFUL = ["string", "varint", "float", "bytes", "datetime", "filesize", "uint32", "boolean"]  # text / integers / floats / bytes / timestamps
OTHER = ["path", "net.ipaddress", "net.ipnetwork", "digest", "uri", "string[]", "varint[]", "command", "stringlist", "uint16", "unix_file_mode"]


def srepr(x):
    try:
        return repr(x)
    except Exception:  # noqa: BLE001
        return '<repr raises>'


def plain(v):
    if v is None:
        return None
    if isinstance(v, _d.datetime):
        off = v.utcoffset()
        return ("dt", v.year, v.month, v.day, v.hour, v.minute, v.second, v.microsecond, off.total_seconds() if off is not None else None)
    if isinstance(v, bytes):
        return ("b", bytes(v))
    if isinstance(v, bool):
        return ("i", int(v))
    if isinstance(v, int):
        return ("i", int(v))
    if isinstance(v, float):
        return ("f", float(v)) if v == v else ("f", "nan")
    return ("s", str(v))


def run_value(case):
    from flow.record import RecordReader, RecordWriter

    h = jhash(case)
    try:
        rec = recs.build_record(case["record"])
    except Exception as e:  # noqa: BLE001
        return {"ev": 1, "h": h, "nt": False, "out": "rejected:" + type(e).__name__}
    d = os.environ["VERIF_SCRATCH"]
    _n[0] += 1
    path = os.path.join(d, "c18v-%d-%d.sqlite" % (os.getpid(), _n[0]))
    viol = []
    t = case["t"]
    out = "ok"
    try:
        try:
            w = RecordWriter("sqlite://" + path)
            w.write(rec)
            w.flush()
            w.close()
        except Exception as e:  # noqa: BLE001
            v = getattr(rec, "x")
            big = isinstance(v, int) and not isinstance(v, bool) and not (-2**63 <= int(v) < 2**63)
            try:
                sur = any(0xD800 <= ord(c) <= 0xDFFF for c in str(v))
            except Exception:  # noqa: BLE001  (str() of the value itself fails: filesize.__repr__ for huge values, see C20)
                sur = False
            lst = isinstance(v, list) and any(isinstance(x, int) and not (-2**63 <= x < 2**63) for x in v)
            if not (big or sur or lst):
                viol.append(("C18:value-write-raises:%s:%s" % (t, type(e).__name__), case, {"error": repr(e)[:200]}))
            return {"ev": 1, "h": h, "nt": True, "out": "value:%s:refused" % t, "viol": viol}
        # independent read: storage class
        con = sqlite3.connect(path)
        row = con.execute('SELECT "x", typeof("x") FROM "%s"' % rec._desc.name).fetchone()
        con.close()
        want = cell(rec.x)
        if t in FAITHFUL or rec.x is None:
            if row[0] != want or (isinstance(want, float) != isinstance(row[0], float) and want is not None and not isinstance(want, int)):
                if not (isinstance(want, float) and want != want and row[0] is None):  # sqlite stores NaN as NULL
                    viol.append(("C18:stored-cell-differs:%s:%s" % (t, row[1]), case, {"stored": repr(row[0])[:80], "typeof": row[1], "want": repr(want)[:80]}))
                    out = "stored-diff"
        else:
            if str(row[0]) != str(want):
                viol.append(("C18:stored-text-differs:%s" % t, case, {"stored": repr(row[0])[:80], "want": repr(want)[:80]}))
        # SqliteReader
        try:
            rd = RecordReader("sqlite://" + path)
            got, exc = drain(rd)
        except Exception as e:  # noqa: BLE001
            got, exc = [], e
        if exc is not None or len(got) != 1:
            viol.append(("C18:reader-fails:%s:%s" % (t, type(exc).__name__ if exc else "count"), case, {"error": repr(exc)[:200], "count": len(got)}))
        else:
            g = got[0]
            if g._desc.name != rec._desc.name:
                viol.append(("C18:reader-type-name", case, {"got": g._desc.name}))
            gv = getattr(g, "x", "<no field>")
            if t in FAITHFUL:
                pw, pg = plain(rec.x), plain(gv)
                if isinstance(rec.x, float) and rec.x != rec.x:
                    pass
                elif pw != pg and not (pw and pg and pw[0] == "f" and pg[0] in ("f", "i") and pw[1] == pg[1]):
                    viol.append(("C18:reader-value-differs:%s" % t, case, {"read": srepr(gv)[:80], "written": srepr(rec.x)[:80]}))
                    out = "read-diff"
            else:
                if rec.x is not None and str(gv) != str(cell(rec.x)):
                    viol.append(("C18:reader-text-differs:%s" % t, case, {"read": srepr(gv)[:80], "written": srepr(str(rec.x))[:80]}))
            for k in ("_source", "_classification", "_generated"):
                if plain(getattr(g, k)) != plain(getattr(rec, k)):
                    viol.append(("C18:reader-metadata-differs:%s" % k, case, {"read": srepr(getattr(g, k)), "written": srepr(getattr(rec, k))}))
    finally:
        for suffix in ("", "-journal"):
            try:
                os.unlink(path + suffix)
            except OSError:
                pass
    return {"ev": 1, "h": h, "nt": True, "out": "value:%s:%s" % (t, out), "viol": viol, "sample": case if int(h, 16) % 97 == 0 else None}


NAMES = ["sqlite/history", "SQLiteDump", "sqlitex", "sqlite_x", "plain", "select", "table", "order", "index", "group", "MixedCase", "a_1", "x" * 63, "y" * 64, "a/b/c", "where/from", "Select", "values"]
KEYWORD_FIELDS = ["from", "class", "in", "None"]  # Python keywords as field names: the record class is generated from another template


def run_names(case):
    from flow.record import RecordReader, RecordWriter

    h = jhash(case)
    tname, fname = case["type"], case["field"]
    viol = []
    d = os.environ["VERIF_SCRATCH"]
    _n[0] += 1
    path = os.path.join(d, "c18n-%d-%d.sqlite" % (os.getpid(), _n[0]))
    try:
        r1 = recs.build_record(rs(tname, [["string", fname], ["varint", "n"]], ["'v1'", "1"]))
        r2 = recs.build_record(rs(tname, [["string", fname], ["varint", "n"]], ["'v2'", "2"]))
        r3 = recs.build_record(rs(tname, [["string", fname], ["varint", "n"]], ["''", "0"]))  # set, but falsy
        extra = []
        if case.get("second"):
            extra = [recs.build_record(rs(case["second"][0], [["string", case["second"][1]], ["varint", "n"]], ["'w'", "3"]))]
        try:
            w = RecordWriter("sqlite://" + path)
            for r in [r1, r2, r3] + extra:
                w.write(r)
            w.flush()
            w.close()
        except Exception as e:  # noqa: BLE001
            cls = "case-collision" if case.get("second") else ("reserved-sqlite_-prefix" if tname.lower().startswith("sqlite_") else "single")
            viol.append(("C18:names:write-raises:%s:%s" % (cls, type(e).__name__), case, {"error": repr(e)[:200]}))
            return {"ev": 1, "h": h, "nt": True, "out": "names:write-raise", "viol": viol}
        seen = observe(path)
        want_tables = {tname} | ({case["second"][0]} if case.get("second") else set())
        if set(seen) != want_tables:
            viol.append(("C18:names:tables:%s" % ("case-collision" if case.get("second") else "single"), case, {"tables": sorted(seen), "want": sorted(want_tables)}))
        else:
            cols, rows = seen[tname]
            if fname not in cols or len(rows) != 3 or dict(zip(cols, rows[0])).get(fname) != "v1" or dict(zip(cols, rows[2])).get(fname) != "":
                viol.append(("C18:names:rows", case, {"cols": cols, "rows": len(rows)}))
        try:
            rd = RecordReader("sqlite://" + path)
            got, exc = drain(rd)
        except Exception as e:  # noqa: BLE001
            got, exc = [], e
        if exc is not None or len(got) != 3 + len(extra):
            viol.append(("C18:names:reader:%s" % (type(exc).__name__ if exc else "count"), case, {"error": repr(exc)[:200], "count": len(got)}))
        else:
            vals = sorted(repr(getattr(g, fname, getattr(g, case["second"][1] if case.get("second") else fname, None))) + "/" + repr(g.n) for g in got)
            if vals != sorted(["'v1'/1", "'v2'/2", "''/0"] + (["'w'/3"] if extra else [])):
                viol.append(("C18:names:reader-values", case, {"values": vals}))
    finally:
        for suffix in ("", "-journal"):
            try:
                os.unlink(path + suffix)
            except OSError:
                pass
    return {"ev": 1, "h": h, "nt": True, "out": "names:" + ("ok" if not viol else "bad"), "viol": viol}


def cases(tier, seed):
    depth = 6 if tier == "thorough" else 5
    core = [e for e in EVENTS if e != "A~"]
    for k in range(1, depth + 1):
        # the full alphabet one level shallower than the core alphabet
        for hist in itertools.product(EVENTS if k < depth else core, repeat=k):
            if "close" in hist[:-1]:
                continue  # nothing happens after close
            yield {"kind": "hist", "hist": list(hist)}
    # longer single-type histories around the batch boundaries
    for k in range(1, 5):
        for hist in itertools.product(["A", "B", "bad", "badtable", "flush"], repeat=k):
            if "bad" in hist or "badtable" in hist:
                yield {"kind": "hist", "hist": list(hist) + ["close"]}
                yield {"kind": "hist", "hist": list(hist)}
    for k in range(1, 5):
        for hist in itertools.product(["A", "B", "A+", "flush"], repeat=k):
            for closer in ("exit", "exit-exc"):
                yield {"kind": "hist", "hist": list(hist) + [closer]}
    for k in range(2, 5):
        for hist in itertools.product(["K1", "K2", "A", "flush", "close"], repeat=k):
            if "close" not in hist[:-1] and "K1" in hist and "K2" in hist:
                yield {"kind": "hist", "hist": list(hist)}
    # a second (third) run appending to the database of the first: the record types it brings meet tables that already exist
    for k in range(2, depth + 1):
        for hist in itertools.product(["A", "A+", "A-", "B", "reopen"] if k < depth else ["A", "A+", "reopen"], repeat=k):
            if "reopen" in hist[1:] and hist[-1] != "reopen":
                yield {"kind": "hist", "hist": list(hist)}
                if k <= 3:
                    yield {"kind": "hist", "hist": list(hist) + ["close"]}
    for k in range(3, 6):
        for hist in itertools.product(["A", "A+", "B", "read"], repeat=k):
            if hist.count("read") >= 2 and hist[0] != "read" and (k < 5 or (hist[-1] == "read" and "A+" in hist)):
                for batch in (1, 1000):
                    yield {"kind": "reread", "hist": list(hist), "batch": batch}
    for rows in ([5, 7], [7, 5], [1, 9], [12, 12]):
        for batch in (1, 2, 3, 5, 1000):
            for poke in ("none", "table_names", "iter"):
                yield {"kind": "overlap", "rows": rows, "batch": batch, "poke": poke}
    for n in range(1, 9):
        yield {"kind": "hist", "hist": ["A"] * n}
        yield {"kind": "hist", "hist": ["A"] * n + ["close"]}
        yield {"kind": "hist", "hist": ["A", "B"] * n + ["close"]}
    for t in FAITHFUL + OTHER:
        for v in alphabet(t.replace("[]", ""), seed) if not t.endswith("[]") else ["None", "[]", "['a','b']" if t == "string[]" else "[1, 2**62]"]:
            yield {"kind": "value", "t": t, "record": rs("sq/v", [[t, "x"]], [v])}
    for v in ["2**63-1", "-2**63", "2**63", "-2**63-1", "0.0", "-0.0", "1e308", "5e-324", "b''", "b'\\x00\\x01'", "'a\\x00b'", "''"]:
        t = "varint" if "**" in v else "float" if ("." in v or "e" in v) and not v.startswith(("b", "'")) else "bytes" if v.startswith("b") else "string"
        yield {"kind": "value", "t": t, "record": rs("sq/v", [[t, "x"]], [v])}
    # long values, and everything once more with debug logging switched on (rdump -vv): logging must not touch what is stored
    for t, v in (("string", "S('x', 129)"), ("string", "S('\\xe9', 4000)"), ("bytes", "S(b'\\xab', 129)"), ("bytes", "S(b'\\x00', 70000)"), ("uri", "S('u', 300)"), ("path", "S('p', 300)"),
                 ("string[]", "[S('x', 200)]")):
        for dbg in (False, True):
            yield {"kind": "value", "t": t, "record": rs("sq/v", [[t, "x"]], [v]), "debug": dbg}
    for t in FAITHFUL:
        for v in alphabet(t, seed)[:8]:
            yield {"kind": "value", "t": t, "record": rs("sq/v", [[t, "x"]], [v]), "debug": True}
    for k in range(1, 4):
        for hist in itertools.product(EVENTS, repeat=k):
            if "close" not in hist[:-1]:
                yield {"kind": "hist", "hist": list(hist), "debug": True}
    for tn in NAMES:
        for fn in NAMES + KEYWORD_FIELDS:
            if "/" in fn:
                continue
            yield {"kind": "names", "type": tn, "field": fn}
    for a, b in (("select", "Select"), ("MixedCase", "mixedcase")):
        yield {"kind": "names", "type": a, "field": "f", "second": [b, "f"]}


def main(tier, seed, workers=None):
    run = Run(PROP, "model_checking", tier, seed, RULE)
    run.assumptions = ["the commit model is deliberately liberal: any count reachable by the listed legitimate commit points is accepted",
                       "SQLite stores NaN as NULL and -0.0 as 0.0: judged by value"]
    explore(run, cases(tier, seed), run_case, workers, chunk=32)
    run.states = max(1, len(run.state_hashes))
    run.transitions = run.extra.get("observer_reads", 0)
    run.traces = run.transitions
    return run.finish(lambda case: [v[0] for v in run_case(case)["viol"]])
