"""C08 — comparisons on a field the record lacks are false and never raise (finite grammar, fully enumerated)."""
from __future__ import annotations

import io
import itertools
import os

from mc import recs, refsel, selhist
from mc.faults import drain
from mc.obs import obs_list
from mc.recs import rs
from mc.rdumpshim import run_rdump
from mc.report import Run, jhash
from mc.space import explore

PROP = "C08"
RULE = ("op x position of the missing operand x kind of the other operand x boolean context x engine x way of giving the "
        "selector, ALL enumerated; helper calls over every ordered subset of {present, present, missing} field names; all "
        "heterogeneous sequences of length <=4 over {match, no-match, other-type, same-name-fewer-fields} x 8 operators x 6 read "
        "paths (stream reader, path reader, record_stream over 1 and 2 files, rdump compiled and -n). non-trivial = every case "
        "(each contains a missing field)")

OPS = ["==", "!=", "<", "<=", ">", ">=", "in", "not in"]
OTHERS = {
    "int": "1", "float": "1.5", "str": "'a'", "bytes": "b'a'", "none": "None", "bool": "True", "list": "[1, 'a']", "tuple": "(1,)",
    "emptylist": "[]", "f-int": "r.n", "f-str": "r.s", "f-float": "r.f", "f-bool": "r.b", "f-list": "r.l", "f-path": "r.p", "f-ip": "r.ip",
    "f-uri": "r.u", "f-int0": "r.n0", "f-str0": "r.s0", "f-path0": "r.p0", "f-list0": "r.l0", "f-float0": "r.f0", "f-bool0": "r.b0", "f-bytes0": "r.raw0",
    "cons": "net.ipnetwork('10.0.0.0/8')", "cons-legacy-subnet": "net.ipv4.Subnet('10.0.0.0/8')", "cons-legacy-addr": "net.ipv4.Address('10.1.2.3')",
    "cons-ip": "net.ipaddress('10.1.2.3')", "cons-ip6net": "net.ipnetwork('::/0')", "type": "Type.string", "f-none": "r.none", "f-bytes": "r.raw", "str-empty": "''",
}
for _n in (8, 9, 16, 17, 64, 65, 257, 1025):
    OTHERS["list-%d" % _n] = "[%s]" % ", ".join(str(i) for i in range(_n))
    OTHERS["tuple-%d" % _n] = "(%s)" % ", ".join("'s%d'" % i for i in range(_n))
    if _n in (9, 17, 65):
        OTHERS["mixed-%d" % _n] = "[r.n, %s]" % ", ".join(str(i) if i % 2 else "'s%d'" % i for i in range(_n - 1))
NONCONTAINER = {"int", "float", "none", "bool", "f-int", "f-float", "f-bool", "f-path", "f-ip", "f-none", "cons-ip", "cons-legacy-addr",
                "f-int0", "f-path0", "f-float0", "f-bool0"}
CONTEXTS = {
    "bare": "%s", "and-r": "(%s) and True", "and-l": "True and (%s)", "or-r": "(%s) or False", "or-l": "False or (%s)", "not": "not (%s)",
    "not-and": "not (%s) and True", "any": "any((%s) for _i in [1])", "chain-after-true": "%s", "chain-before-true": "%s",
    "chain3": "%s", "chain4": "%s",
}
CTX_EXPECT = {"chain3": False, "chain4": False, "chain-after-true": False, "chain-before-true": False, "bare": False, "and-r": False, "and-l": False, "or-r": False, "or-l": False, "not": True, "not-and": True, "any": False}
HOW = ["Selector", "CompiledSelector", "make_selector", "make_selector_forced"]

REC = rs("c8/rec", [["varint", "n"], ["string", "s"], ["float", "f"], ["boolean", "b"], ["string[]", "l"], ["path", "p"],
                    ["net.ipaddress", "ip"], ["uri", "u"], ["string", "none"], ["bytes", "raw"],
                    ["varint", "n0"], ["string", "s0"], ["path", "p0"], ["string[]", "l0"], ["float", "f0"], ["boolean", "b0"], ["bytes", "raw0"]],
         ["1", "'a'", "1.5", "True", "['a']", "'/a'", "'10.1.2.3'", "'http://a/a'", "None", "b'a'",
          "0", "''", "''", "[]", "0.0", "False", "b''"])
_R = []


def the_record():
    if not _R:
        _R.append(recs.build_record(REC))
    return _R[0]


def make(how, expr):
    from flow.record.selector import CompiledSelector, Selector, make_selector

    if how == "Selector":
        return Selector(expr), "interpreted"
    if how == "CompiledSelector":
        return CompiledSelector(expr), "compiled"
    if how == "make_selector":
        return make_selector(expr), "interpreted"
    return make_selector(expr, force_compiled=True), "compiled"


def other_class(k):
    if k in ("str", "f-str", "str-empty", "bytes", "f-bytes", "f-uri", "f-str0", "f-bytes0"):
        return "strlike"
    if k in ("list", "tuple", "emptylist", "f-list", "f-list0") or k.startswith(("list-", "tuple-", "mixed-")):
        return "seq"
    if k == "f-path0":
        return "f-path"
    if k == "type":
        return "typed"
    if k.startswith("cons-legacy"):
        return "legacy-" + k[12:]
    if k.startswith("cons"):
        return "cons"
    if k in ("f-ip", "f-path"):
        return k
    return "other"


def run_case(case):
    if case["kind"] == "manydesc":
        return selhist.run(case, "C08")
    if case["kind"] == "expr":
        return run_expr(case)
    if case["kind"] == "helper":
        return run_helper(case)
    return run_stream(case)


def run_expr(case):
    h = jhash(case)
    op, pos, ok, ctx, how = case["op"], case["pos"], case["other"], case["ctx"], case["how"]
    o = OTHERS[ok]
    cmp_ = {"left": "r.zz %s %s" % (op, o), "right": "%s %s r.zz" % (o, op), "both": "r.zz %s r.zq" % op}[pos]
    if ctx == "chain-after-true":  # the comparison is the second link of a chain whose first link is true
        cmp_ = {"left": "r.n == r.n == r.zz %s %s" % (op, o) if False else "1 == 1 and r.zz %s %s" % (op, o), "right": "%s == %s %s r.zz" % (o, o, op),
                "both": "r.zz %s r.zq == r.zq" % op}[pos]
    elif ctx == "chain3":  # the missing field is the 4th (or 1st) operand of a chain whose other links hold
        cmp_ = {"left": "r.zz %s %s == %s == %s" % (op, o, o, o), "right": "%s == %s == %s %s r.zz" % (o, o, o, op), "both": "r.zz %s r.zq == r.zq == r.zq" % op}[pos]
    elif ctx == "chain4":
        cmp_ = {"left": ("r.zz %s 0 <= 1 <= r.n <= 3" % op) if op not in ("in", "not in") else ("r.zz %s [0] <= [1] <= [r.n] <= [3]" % op), "right": "0 <= r.n <= 2 <= 3 %s r.zz" % op, "both": "0 <= r.n <= 2 %s r.zz %s r.zq" % (op, op)}[pos]
    elif ctx == "chain-before-true":
        cmp_ = {"left": "r.zz %s %s == %s" % (op, o, o), "right": "r.n == r.n and %s %s r.zz" % (o, op), "both": "r.zz %s r.zq" % op}[pos]
    expr = CONTEXTS[ctx] % cmp_
    rec = the_record()
    viol = []
    try:
        sel, engine = make(how, expr)
        got = sel.match(rec)
        res = "T" if got else "F"
        want = CTX_EXPECT[ctx]
        if bool(got) != want:
            viol.append(("C08:%s:op=%s:missing=%s:other=%s:not-false" % (engine, op, pos, other_class(ok)),
                         case, {"expr": expr, "got": repr(got)[:60], "want": want}))
    except RecursionError:
        raise
    except Exception as e:  # noqa: BLE001
        res = "E:" + type(e).__name__
        engine = "compiled" if "ompiled" in how or how.endswith("forced") else "interpreted"
        if op in ("in", "not in") and pos == "left" and ok in NONCONTAINER and isinstance(e, TypeError):
            # `x in <something that is no container>` is a TypeError for every x, with or without the field
            return {"ev": 1, "h": h, "nt": True, "out": "%s:E-noncontainer" % ctx, "viol": []}
        viol.append(("C08:%s:op=%s:missing=%s:other=%s:raises-%s" % (engine, op, pos, other_class(ok), type(e).__name__), case,
                     {"expr": expr, "error": repr(e)[:200]}))
    return {"ev": 1, "h": h, "nt": True, "out": "%s:%s" % (ctx, res), "viol": viol, "sample": case if int(h, 16) % 3001 == 0 else None}


def run_helper(case):
    h = jhash(case)
    expr = case["expr"]
    rec = the_record()
    ref = refsel.evaluate(expr, rec)
    viol = []
    outs = []
    for how in ("Selector", "CompiledSelector"):
        try:
            sel, engine = make(how, expr)
            got = bool(sel.match(rec))
            outs.append("T" if got else "F")
            if ref[0] == "value" and got != ref[1]:
                viol.append(("C08:%s:helper:%s:differs" % (engine, case["helper"]), case, {"expr": expr, "got": got, "want": ref[1]}))
            if ref[0] != "value" and case.get("must_be_false") and got:
                viol.append(("C08:%s:helper:%s:not-false" % (engine, case["helper"]), case, {"expr": expr}))
        except RecursionError:
            raise
        except Exception as e:  # noqa: BLE001
            outs.append("E")
            engine = "compiled" if how == "CompiledSelector" else "interpreted"
            viol.append(("C08:%s:helper:%s:raises-%s" % (engine, case["helper"], type(e).__name__), case, {"expr": expr, "error": repr(e)[:200]}))
    return {"ev": 2, "h": h, "nt": True, "out": "helper:" + "".join(outs), "viol": viol}


# ---- heterogeneous streams ---------------------------------------------------------------------------------------

KINDS = {
    "M": rs("c8/has", [["varint", "v"], ["string", "tag"]], ["7", "'m'"]),
    "N": rs("c8/has", [["varint", "v"], ["string", "tag"]], ["3", "'n'"]),
    "O": rs("c8/other", [["string", "w"]], ["'o'"]),
    "F": rs("c8/has", [["string", "tag"]], ["'f'"]),
    # grouped records: one Python class whatever the members are - "P" has no member with v, "Q" has v == 7 (in its second member)
    "P": {"group": "c8/grp", "members": [rs("c8/other", [["string", "w"]], ["'o'"]), rs("c8/has", [["string", "tag"]], ["'f'"])]},
    "Q": {"group": "c8/grp", "members": [rs("c8/other", [["string", "w"]], ["'o'"]), rs("c8/has", [["varint", "v"], ["string", "tag"]], ["7", "'m'"])]},
}
VAL = {"M": 7, "N": 3, "Q": 7}
# selectors that are true for a record *without* going through the missing field (a reader may not pre-filter by field names)
STREAM_EXPRS = [
    "r.v > 5 or name(r) == 'c8/other'", "r.v > 5 or has_field(r, 'w')", "r.v > 5 or Type.string == 'o'", "r.v > 5 or True",
    "r.v == 7 and name(r) == 'c8/has'", "r.w == 'o' or r.v == 3", "field_equals(r, ['w', 'tag'], ['o', 'n'])", "r.v == 3 or r.tag == 'f'",
    "r.v > 5 or field_contains(r, ['tag'], ['f'])", "r.zz == 1 or r.tag == 'm' or r.w == 'o'",
]
_n = [0]


def py_cmp(op, a, b):
    return {"==": a == b, "!=": a != b, "<": a < b, "<=": a <= b, ">": a > b, ">=": a >= b}[op]


def run_stream(case):
    from flow.record import RecordReader, RecordStreamReader, RecordStreamWriter, RecordWriter, record_stream

    h = jhash(case)
    seq, op = case["seq"], case["op"]
    records = [recs.build_record(KINDS[k]) for k in seq]
    if op.startswith("expr:"):
        expr = op[5:]
        vals = [refsel.evaluate_c08(expr, r) for r in records]
        keepflags = [v == ("value", True) for v in vals]
        keep = None
    elif op in ("in", "not in"):
        expr = "r.v %s [7, 8]" % op
        keep = lambda k: (VAL.get(k) == 7) if op == "in" else (VAL.get(k) == 3)  # noqa: E731
    else:
        expr = "r.v %s 5" % op
        keep = lambda k: k in VAL and py_cmp(op, VAL[k], 5)  # noqa: E731
    if keep is not None:
        keepflags = [keep(k) for k in seq]
    expected = obs_list([r for r, f in zip(records, keepflags) if f])
    d = os.environ["VERIF_SCRATCH"]
    _n[0] += 1
    base = os.path.join(d, "c08-%d-%d" % (os.getpid(), _n[0]))
    p_all, p1, p2, p_out = base + ".records", base + "-1.records", base + "-2.records", base + "-out.records"
    half = len(records) // 2
    for p, rr in ((p_all, records), (p1, records[:half]), (p2, records[half:])):
        w = RecordWriter(p)
        for r in rr:
            w.write(r)
        w.flush()
        w.close()
    viol = []
    outs = []

    def judge(path_name, got, exc):
        ogot = obs_list(got)
        if exc is not None:
            viol.append(("C08:stream:%s:op=%s:raises-%s" % (path_name, op, type(exc).__name__), case, {"expr": expr, "error": repr(exc)[:200], "yielded": len(got)}))
            outs.append("E")
        elif ogot != expected:
            kind = "dropped" if len(ogot) < len(expected) else "extra-or-different"
            viol.append(("C08:stream:%s:op=%s:%s" % (path_name, op, kind), case, {"expr": expr, "got": len(ogot), "want": len(expected)}))
            outs.append("D")
        else:
            outs.append("ok")

    try:
        buf = io.BytesIO()
        w = RecordStreamWriter(buf)
        for r in records:
            w.write(r)
        w.flush()
        data = buf.getvalue()
        w.fp = None
        for compiled in (False, True):
            from flow.record.selector import make_selector

            sel = make_selector(expr, force_compiled=compiled)
            try:
                rd = RecordStreamReader(io.BytesIO(data), selector=sel)
                got, exc = drain(rd)
            except Exception as e:  # noqa: BLE001
                got, exc = [], e
            judge("streamreader-" + ("compiled" if compiled else "interpreted"), got, exc)
        try:
            rd = RecordReader(p_all, selector=expr)
            got, exc = drain(rd)
            rd.close()
        except Exception as e:  # noqa: BLE001
            got, exc = [], e
        judge("recordreader", got, exc)
        for name, srcs in (("record_stream-1", [p_all]), ("record_stream-2", [p1, p2])):
            import logging

            logging.disable(logging.CRITICAL)
            try:
                got, exc = drain(record_stream(srcs, make_selector(expr)))
            finally:
                logging.disable(logging.NOTSET)
            judge(name, got, exc)
        for name, extra in (("rdump-compiled", []), ("rdump-n", ["-n"])):
            rc, out, err = run_rdump([p1, p2, "-s", expr, "-w", p_out] + extra)
            if isinstance(rc, Exception):
                judge(name, [], rc)
            else:
                try:
                    rd = RecordReader(p_out)
                    got, exc = drain(rd)
                    rd.close()
                except Exception as e:  # noqa: BLE001
                    got, exc = [], e
                judge(name, got, exc)
    finally:
        for p in (p_all, p1, p2, p_out):
            try:
                os.unlink(p)
            except OSError:
                pass
    seen = set()
    v2 = [v for v in viol if not (v[0] in seen or seen.add(v[0]))]
    return {"ev": 7, "h": h, "nt": any(k in ("O", "F", "P") for k in seq), "out": "stream:" + "/".join(sorted(set(outs))), "viol": v2,
            "sample": case if int(h, 16) % 997 == 0 else None}


def cases(tier):
    for op, pos, ok, ctx, how in itertools.product(OPS, ["left", "right", "both"], OTHERS, CONTEXTS, HOW):
        if pos == "both" and ok != "int":
            continue
        if op in ("in", "not in") and pos == "left" and other_class(ok) == "other" and ok not in ("cons", "type"):
            continue  # `x in <non-container>` is a TypeError in Python for every x: not a statement about missing fields
        yield {"kind": "expr", "op": op, "pos": pos, "other": ok, "ctx": ctx, "how": how}
    names = ["s", "u", "zz"]
    for k in (1, 2, 3):
        for fl in itertools.permutations(names, k):
            fl = list(fl)
            for helper, tmpl in (("field_contains", "field_contains(r, %r, ['a'])"), ("field_equals", "field_equals(r, %r, ['A'])"),
                                 ("field_regex", "field_regex(r, %r, 'a$')"), ("field_contains-wb", "field_contains(r, %r, ['a'], word_boundary=True)"),
                                 ("field_equals-case", "field_equals(r, %r, ['A'], nocase=False)"),
                                 ("field_contains-nomatch", "field_contains(r, %r, ['qqq'])")):
                yield {"kind": "helper", "helper": helper, "expr": tmpl % (fl,)}
    for e, hn in (("has_field(r, 'zz')", "has_field"), ("has_field(r, 's')", "has_field"), ("lower(r.zz) == 'a'", "lower"),
                  ("upper(r.zz) == 'A'", "upper"), ("lower(r.zz) != 'a'", "lower"), ("'a' in lower(r.zz)", "lower"),
                  ("field_contains(r, ['zz'], ['a'])", "field_contains"), ("field_equals(r, ['zz', 'zq'], ['a'])", "field_equals"),
                  ("field_regex(r, ['zz'], '.*')", "field_regex"), ("field_contains(r, [], ['a'])", "field_contains"),
                  # None / '' among the values searched for: a missing field is still skipped, it does not "equal" None
                  ("field_equals(r, ['zz'], [None])", "field_equals-none"), ("field_equals(r, ['zz', 'zq'], [None, ''])", "field_equals-none"),
                  ("field_contains(r, ['zz'], [None], word_boundary=True)", "field_contains-none"), ("field_contains(r, ['zz'], [''])", "field_contains-none"),
                  ("field_equals(r, ['zz'], [None], nocase=False)", "field_equals-none"), ("field_regex(r, ['zz'], '')", "field_regex")):
        yield {"kind": "helper", "helper": hn, "expr": e, "must_be_false": True}
    yield from selhist.cases(tier)
    L = 5 if tier == "thorough" else 4
    for k in range(1, L + 1):
        for seq in itertools.product("MNOF", repeat=k):
            for op in OPS:
                yield {"kind": "stream", "seq": list(seq), "op": op}
            if k <= 3:
                for e in STREAM_EXPRS:
                    yield {"kind": "stream", "seq": list(seq), "op": "expr:" + e}
    for k in (1, 2, 3):
        for seq in itertools.product("MOPQ", repeat=k):
            if "P" in seq or "Q" in seq:
                for op in OPS:
                    yield {"kind": "stream", "seq": list(seq), "op": op}


def main(tier, seed, workers=None):
    run = Run(PROP, "exploration", tier, seed, RULE)
    run.assumptions = ["the comparison node itself must be False: contexts are judged against Python's evaluation with the comparison replaced by False"]
    the_record()
    explore(run, cases(tier), run_case, workers, chunk=64)
    return run.finish(lambda case: [v[0] for v in run_case(case)["viol"]])
