"""C14 — JSON lines output round-trips and is plain JSON."""
from __future__ import annotations

import base64
import io
import itertools
import json
import os

from mc import recs
from mc.alphabets import alphabet
from mc.faults import drain
from mc.obs import obs, obs_list
from mc.recs import rs
from mc.report import Run, jhash
from mc.space import explore

PROP = "C14"
RULE = ("JSON-supported types (scalar and list) x value alphabets, pairs over a reduced alphabet, sequences <=3 over three "
        "descriptors; x descriptors {on, off} x indent {None, 0, 2} x channels {packer, jsonfile adapter on a path, RecordWriter "
        ".json / .jsonl / URI query, .json.gz}; non-trivial = record accepted and not all-None")

JTYPES = ["string", "wstring", "varint", "filesize", "unix_file_mode", "uint16", "uint32", "float", "boolean", "datetime", "bytes", "digest",
          "net.ipaddress", "net.ipnetwork", "uri", "path"]
_n = [0]
XFAIL = [()]


def is_posix_path_spec(t, v):
    return not (t.startswith("path") and ("windows_path" in v or "PWP" in v))


def small(v):
    return not (v.startswith("S(") and ("65535" in v or "65536" in v))


def cases(tier, seed):
    for t in JTYPES:
        for v in alphabet(t, seed):
            if is_posix_path_spec(t, v) and not (t.startswith("uint") and v == "True"):
                yield {"kind": "single", "t": t, "records": [rs("j/one", [[t, "x"]], [v])]}
        lt = t + "[]"
        elems = [v for v in alphabet(t, seed, with_none=False) if small(v) and is_posix_path_spec(t, v) and not (t.startswith("uint") and v == "True")][: (20 if tier == "thorough" else 6)]
        yield {"kind": "single", "t": lt, "records": [rs("j/list", [[lt, "xs"]], ["None"])]}
        yield {"kind": "single", "t": lt, "records": [rs("j/list", [[lt, "xs"]], ["[]"])]}
        for a in elems:
            yield {"kind": "single", "t": lt, "records": [rs("j/list", [[lt, "xs"]], ["[%s]" % a])]}
        for a, b in itertools.product(elems[:4], repeat=2):
            yield {"kind": "single", "t": lt, "records": [rs("j/list", [[lt, "xs"]], ["[%s, %s]" % (a, b)])]}
    for v in alphabet("stringlist", seed):
        yield {"kind": "single", "t": "stringlist", "records": [rs("j/one", [["stringlist", "x"]], [v])]}
    # list fields extended in place (append) with a plain value of the element kind after the record was made
    for lt, first, more in (("datetime[]", "dt(2020,1,1,tz=UTC)", "dt(2021,2,3,4,5,6,7,tz=off(5,30))"), ("bytes[]", "b'a'", "b'\\x00\\xff'"), ("string[]", "'a'", "'plain'"),
                            ("varint[]", "1", "2**70"), ("float[]", "0.5", "1.25"), ("boolean[]", "True", "False")):
        yield {"kind": "single", "t": lt + ":appended", "records": [dict(rs("j/list", [[lt, "xs"]], ["[%s]" % first]), mutate=[["xs", more]])],
               "expected_records": [rs("j/list", [[lt, "xs"]], ["[%s, %s]" % (first, more)])]}
    # documents longer than the usual read buffers (64 KiB, 128 KiB)
    for t, v in (("string", "S('x', 65537)"), ("string", "S('x', 131073)"), ("string", "S('\\xe9', 70000)"), ("bytes", "S(b'\\xab', 100000)"), ("string[]", "[S('y', 140000), 'z']"),
                 ("varint", "10**4000"), ("uri", "S('u', 200000)")):
        yield {"kind": "single", "t": t + ":long", "records": [rs("j/long", [[t, "x"], ["varint", "n"]], [v, "1"]), rs("j/long", [[t, "x"], ["varint", "n"]], ["None", "2"])]}
    # grouped records: the document's keys are the union of the members' fields (first member wins), read back as that flat view
    GA = rs("j/ga", [["string", "s"], ["varint", "n"]], ["'va'", "1"])
    GB = rs("j/gb", [["bytes", "b"], ["varint", "n"], ["boolean", "flag"]], ["b'zz'", "2", "None"])
    for members in ([GA, GB], [GB, GA], [GA], [GA, GA]):
        yield {"kind": "grouped", "t": "grouped", "records": [{"group": "j/grp", "members": members}, GA]}
    atoms = [("string", "'a'"), ("string", "None"), ("string", "'\\udc80'"), ("varint", "2**200"), ("varint", "None"), ("float", "nan"), ("float", "-0.0"),
             ("boolean", "True"), ("boolean", "None"), ("datetime", "dt(2020,6,1,12,0,0,5,tz=off(5,30))"), ("datetime", "None"), ("bytes", "b'\\x00\\xff'"),
             ("bytes", "None"), ("digest", "('d41d8cd98f00b204e9800998ecf8427e', None, None)"), ("digest", "None"), ("net.ipaddress", "'::1'"),
             ("net.ipnetwork", "'10.0.0.0/8'"), ("uri", "'http://h/p'"), ("path", "'/a/b'"), ("path", "None"), ("string[]", "[]"), ("bytes[]", "[b'a', b'']"),
             ("varint[]", "[1, -2**70]"), ("uint16", "65535"), ("float", "inf")]
    for (t1, v1), (t2, v2) in itertools.product(atoms, repeat=2):
        yield {"kind": "pair", "t": t1 + "," + t2, "records": [rs("j/pair", [[t1, "a"], [t2, "b"]], [v1, v2])]}
    A = rs("j/a", [["string", "s"], ["varint", "n"]], ["'va'", "1"], _source="'origin-a'", _classification="'cls-a'")
    A2 = rs("j/a", [["varint", "n"], ["bytes", "b"]], ["2", "b'zz'"])
    B = rs("j/b", [["datetime", "ts"], ["string[]", "l"]], ["dt(2020,1,1,tz=UTC)", "['x']"])
    for gen in ([["hot", nn, form] for nn in ((140, 1030, 2100) if tier != "thorough" else (140, 300, 1030, 2100, 4100)) for form in ("plain",)]
                + [["manytypes", 260, fl] for fl in ("names", "fields", "both")]
                + [["bigfirst", sz, form] for sz in (65536 - 64, 65536, 100000) for form in ("plain",)]
                + [["periodic", pat, 1030] for pat in (["A", "A2"], ["K1", "K2"], ["U1", "U2"], ["AL1", "AL2"])]):
        yield {"kind": "long", "t": "long:" + gen[0], "gen": gen, "records": []}
    N1 = rs("j/n", [["string", "s"], ["varint", "n"], ["float", "f"], ["boolean", "b"]], ["None", "None", "None", "None"])
    N2 = rs("j/n", [["string", "s"], ["varint", "n"], ["float", "f"], ["boolean", "b"]], ["'x'", "2**70", "0.25", "True"], _source="'\\udc80src'")
    N3 = rs("j/n", [["string", "s"], ["varint", "n"], ["float", "f"], ["boolean", "b"]], ["'5'", "5", "5.0", "False"])
    # a record json.dumps refuses (int beyond the int -> str digit limit): the caller skips it and carries on with that type
    JB = dict(rs("j/big", [["varint", "n"], ["string", "s"]], ["10**5000", "'refused'"]), xfail=True)
    JO = rs("j/big", [["varint", "n"], ["string", "s"]], ["5", "'fine'"])
    EMPTY = rs("j/empty", [], [], _source="'only-metadata'")  # a record type without fields of its own
    # two types of one name whose (name, hash) identifiers coincide, one of them with a bytes field
    KB1 = rs("j/k", [["string", "abytesb"]], ["'txt'"])
    KB2 = rs("j/k", [["bytes", "a"], ["string", "b"]], ["b'\\x00\\xff'", "'vb'"])
    # a field that is boolean in one version of a type and an integer in the other (same type name): A, B, A orders
    BV1 = rs("j/bv", [["boolean", "start"], ["string", "s"]], ["True", "'x'"])
    BV2 = rs("j/bv", [["varint", "start"], ["string", "s"]], ["3", "'y'"])
    BV3 = rs("j/bv", [["string", "s"], ["uint16", "start"]], ["'z'", "0"])
    for kk in (2, 3, 4):
        for seq in itertools.product(["BV1", "BV2", "BV3"], repeat=kk):
            if len(set(seq)) > 1:
                yield {"kind": "seq", "t": "seq", "shape": list(seq), "records": [{"BV1": BV1, "BV2": BV2, "BV3": BV3}[x] for x in seq]}
    for kk in (2, 3, 4, 6):
        for seq in itertools.product(["A", "B", "BV1"], repeat=kk) if kk < 6 else [("A", "B") * 3, ("A", "A", "B", "B", "A", "B")]:
            for nw in (2, 3):
                for close in ("fwd", "rev"):
                    yield {"kind": "two-writers", "t": "two-writers", "writers": nw, "close": close, "flush": kk % 2 == 0, "shape": list(seq),
                           "records": [{"A": A, "B": B, "BV1": BV1}[x] for x in seq]}
    shapes = {"A": A, "A2": A2, "B": B, "N1": N1, "N2": N2, "N3": N3, "JB": JB, "JO": JO, "EMPTY": EMPTY, "KB1": KB1, "KB2": KB2}
    for k in ((1, 2, 3, 4) if tier == "thorough" else (1, 2, 3)):
        for seq in itertools.product(shapes, repeat=k):
            yield {"kind": "seq", "t": "seq", "shape": list(seq), "records": [shapes[s] for s in seq]}
    if tier == "thorough":
        # every (type, value) of the alphabets next to every atom
        for t in JTYPES:
            for v in alphabet(t, seed):
                if not small(v) or not is_posix_path_spec(t, v) or (t.startswith("uint") and v == "True"):
                    continue
                for (t2, v2) in atoms:
                    yield {"kind": "pair", "t": t + "," + t2, "records": [rs("j/pair", [[t, "a"], [t2, "b"]], [v, v2])]}


def split_docs(text, indent):
    """-> list of parsed JSON documents; raises ValueError if the text is not a sequence of standalone documents."""
    if indent is None:
        docs = []
        for line in text.split("\n"):
            if line == "":
                continue
            docs.append(json.loads(line))
        if text and not text.endswith("\n"):
            raise ValueError("last document not newline terminated")
        return docs
    dec = json.JSONDecoder()
    docs = []
    pos = 0
    n = len(text)
    while pos < n:
        while pos < n and text[pos] in " \t\r\n":
            pos += 1
        if pos >= n:
            break
        d, pos = dec.raw_decode(text, pos)
        docs.append(d)
    return docs


def expected_json_value(v):
    """The plain JSON value a field value is documented to be written as (independent of the packer)."""
    import datetime as _d

    from flow.record import fieldtypes as ft
    from flow.record.fieldtypes import net

    if v is None:
        return None
    if isinstance(v, ft.boolean):
        return bool(int(v))
    if isinstance(v, (ft.uint16, ft.uint32)):
        return int(v)
    if isinstance(v, bool):
        return v
    if isinstance(v, int):
        return int(v)
    if isinstance(v, float):
        return float(v)
    if isinstance(v, _d.datetime):
        return v.isoformat()
    if isinstance(v, (bytes, bytearray)):
        return base64.b64encode(bytes(v)).decode("ascii")
    if isinstance(v, ft.digest):
        return {"md5": v.md5, "sha1": v.sha1, "sha256": v.sha256}
    if isinstance(v, (net.ipaddress, net.ipnetwork)):
        return str(v.val)
    if isinstance(v, ft.path):
        return str(v)
    if isinstance(v, str):
        return str(v)
    if isinstance(v, (list, tuple)):
        return [expected_json_value(x) for x in v]
    if isinstance(v, dict):
        return {k: expected_json_value(x) for k, x in v.items()}
    return repr(v)


def json_eq(a, b, strict_bool=True):
    if isinstance(a, float) and isinstance(b, float):
        return (a != a and b != b) or (a == b and str(a) == str(b))
    if not strict_bool and isinstance(a, bool) != isinstance(b, bool) and isinstance(a, int) and isinstance(b, int):
        return int(a) == int(b)  # inside lists a boolean may be spelled true/false or 1/0 (not pinned); a boolean *field* is a JSON boolean
    if type(a) is not type(b) and not (isinstance(a, (int, float)) and isinstance(b, (int, float)) and not isinstance(a, bool) and not isinstance(b, bool)):
        return False
    if isinstance(a, list):
        return len(a) == len(b) and all(json_eq(x, y, False) for x, y in zip(a, b))
    if isinstance(a, dict):
        return a.keys() == b.keys() and all(json_eq(a[k], b[k]) for k in a)
    return a == b


def produce(channel, records, descriptors, indent):
    """-> text written"""
    from flow.record import JsonRecordPacker, RecordWriter
    from flow.record.adapter.jsonfile import JsonfileWriter

    d = os.environ["VERIF_SCRATCH"]
    _n[0] += 1
    base = os.path.join(d, "c14-%d-%d" % (os.getpid(), _n[0]))
    if channel == "packer":
        out = []
        p = JsonRecordPacker(indent=indent, pack_descriptors=descriptors)
        if descriptors:
            p.on_descriptor.add_handler(lambda desc: out.append(p.pack(desc) + "\n"))
        for i, r in enumerate(records):
            if i in XFAIL[0]:
                try:
                    line = p.pack(r)
                except (ValueError, TypeError, OverflowError):
                    continue
            else:
                line = p.pack(r)
            out.append(line + "\n")
        return "".join(out), None
    if channel in ("stdout-close", "stdout-with"):
        # jsonfile://- : the documents go to standard output; ended by a bare close() or by leaving a with-block
        import sys

        from mc.rdumpshim import _Std

        q = []
        if not descriptors:
            q.append("descriptors=false")
        if indent is not None:
            q.append("indent=%d" % indent)
        old = sys.stdout
        sys.stdout = shim = _Std()
        try:
            w = RecordWriter("jsonfile://-" + ("?" + "&".join(q) if q else ""))

            def feed():
                for i, r in enumerate(records):
                    if i in XFAIL[0]:
                        try:
                            w.write(r)
                        except (ValueError, TypeError, OverflowError):
                            pass
                    else:
                        w.write(r)

            if channel == "stdout-with":
                with w:
                    feed()
            else:
                feed()
                w.close()
        finally:
            sys.stdout = old
        return shim.getvalue().decode("utf-8", "surrogateescape"), None
    if channel == "adapter":
        path = base + ".json"
        w = JsonfileWriter(path, indent=indent, descriptors=descriptors)
    elif channel == "rw.json.gz":
        path = base + ".json.gz"
        q = []
        if not descriptors:
            q.append("descriptors=false")
        if indent is not None:
            q.append("indent=%d" % indent)
        w = None
    elif channel in ("rw.json", "rw.jsonl"):
        path = base + channel[2:]
        kw = {}
        if indent is not None:
            kw["indent"] = indent
        if not descriptors:
            kw["descriptors"] = False
        w = RecordWriter(path, **kw)
    else:  # uri with query (the boolean spelled in several ways: the option is case-insensitive, 1/0 count too)
        path = base + ".json"
        q = []
        spelling = {"uri": ("true", "false"), "uri-upper": ("TRUE", "FALSE"), "uri-mixed": ("tRuE", "False"), "uri-digit": ("1", "0")}[channel]
        if not descriptors or channel != "uri":
            q.append("descriptors=" + spelling[0 if descriptors else 1])
        if indent is not None:
            q.append("indent=%d" % indent)
        w = RecordWriter("jsonfile://" + path + ("?" + "&".join(q) if q else ""))
    if w is None:
        w = RecordWriter("jsonfile://" + path + ("?" + "&".join(q) if q else ""))
    try:
        for i, r in enumerate(records):
            if i in XFAIL[0]:
                try:
                    w.write(r)
                except (ValueError, TypeError, OverflowError):
                    pass
            else:
                w.write(r)
        w.flush()
    finally:
        w.close()
    if path.endswith(".gz"):
        import gzip

        with gzip.open(path, "rt", encoding="utf-8", errors="surrogateescape", newline="") as f:
            return f.read(), path
    with open(path, "r", encoding="utf-8", errors="surrogateescape", newline="") as f:
        return f.read(), path


def run_two_writers(case):
    """Two (three) JSON writers alive at once, fed alternately, closed in either order: every file holds exactly its own records."""
    import os

    from flow.record import RecordReader, RecordWriter

    h = jhash(case)
    records = [recs.build_record(r) for r in case["records"]]
    k = case["writers"]
    d = os.environ["VERIF_SCRATCH"]
    _tw[0] += 1
    paths = [os.path.join(d, "c14tw-%d-%d-%d.json" % (os.getpid(), _tw[0], i)) for i in range(k)]
    viol = []
    try:
        ws = [RecordWriter(p if i != 1 else "jsonfile://" + p + "?descriptors=false") for i, p in enumerate(paths)]
        for i, r in enumerate(records):
            ws[i % k].write(r)
        order = range(k) if case["close"] == "fwd" else range(k - 1, -1, -1)
        for i in order:
            if case.get("flush"):
                ws[i].flush()
            ws[i].close()
        for i, p in enumerate(paths):
            mine = [r for j, r in enumerate(records) if j % k == i]
            docs = [json.loads(ln) for ln in open(p, encoding="utf-8") if ln.strip()]
            recdocs = [dd for dd in docs if not (isinstance(dd, dict) and dd.get("_type") == "recorddescriptor")]
            if len(recdocs) != len(mine):
                viol.append(("C14:two-writers:file-holds-other-documents", case, {"file": i, "record_documents": len(recdocs), "written_to_it": len(mine)}))
                continue
            if i != 1:
                rd = RecordReader(p)
                got = list(rd)
                rd.close()
                dif = recs.list_diff(obs_list(mine), obs_list(got))
                if dif:
                    viol.append(("C14:two-writers:roundtrip:%s" % dif[3], case, {"file": i, "index": dif[0]}))
    except Exception as e:  # noqa: BLE001
        viol.append(("C14:two-writers:raises-%s" % type(e).__name__, case, {"error": repr(e)[:200]}))
    finally:
        for p in paths:
            try:
                os.unlink(p)
            except OSError:
                pass
    return {"ev": k, "h": h, "nt": True, "out": ["two-writers:%s" % ("ok" if not viol else "bad")], "viol": viol}


_tw = [0]


def run_case(case):
    from flow.record import GroupedRecord, RecordReader

    if case.get("kind") == "two-writers":
        return run_two_writers(case)
    h = jhash(case)
    if case.get("gen"):
        from mc import streamspace

        # long histories (mc.streamspace generators); JSON lines has no grouped encoding: grouped specs are left out
        case = dict(case, records=[sp for sp in streamspace.expand(case) if "group" not in sp and not sp.get("xfail") and "windows_path" not in repr(sp)
                                   and not any(f[0].startswith("record") for f in sp["fields"])])  # (nested records are not among the types the statement lists: C03's JSON leg)  # (JSON output keeps POSIX paths only, by the statement)
    try:
        records = [recs.build_record(r) for r in case["records"]]
    except Exception as e:  # noqa: BLE001
        return {"ev": 1, "h": h, "nt": False, "out": "rejected:" + type(e).__name__}
    if case.get("gen"):
        case = {k: v for k, v in case.items() if k != "records"}  # (reports carry the generator literal, not thousands of specs)
        case["records"] = []
    XFAIL[0] = tuple(i for i, r in enumerate(case["records"]) if r.get("xfail"))
    records_all = records
    records = [r for i, r in enumerate(records_all) if i not in XFAIL[0]]
    # (records whose list was extended in place with a plain value are expected back as their conventionally built twin)
    expected = obs_list([recs.build_record(r) for r in case["expected_records"]] if case.get("expected_records") else records)
    viol = []
    outs = []
    n = 0
    tkey = case["t"] if case["kind"] == "single" else case["kind"]
    channels = ["packer", "adapter", "rw.json", "rw.jsonl", "uri", "uri-upper", "uri-mixed", "uri-digit", "stdout-close", "stdout-with"]  # (a .gz JSON target is a C11 matter: the text writer cannot open it)
    configs = itertools.product((True, False), (None, 0, 2), channels) if not case.get("gen") else [(True, None, "packer"), (True, None, "adapter"), (True, None, "rw.json"), (True, None, "uri")]
    for descriptors, indent, ch in configs:
        n += 1
        cfg = "desc=%s,indent=%s" % (descriptors, indent)
        path = None
        try:
            try:
                text, path = produce(ch, records_all, descriptors, indent)
            except Exception as e:  # noqa: BLE001
                viol.append(("C14:write-raises:%s:%s" % (tkey, type(e).__name__), case, {"cfg": cfg, "channel": ch, "error": repr(e)[:200]}))
                outs.append("write-raise")
                continue
            # (1) standalone documents
            try:
                docs = split_docs(text, indent)
            except ValueError as e:
                viol.append(("C14:not-json-documents:%s:%s" % (cfg, tkey), case, {"channel": ch, "error": str(e)[:200], "text": text[:300]}))
                outs.append("not-json")
                continue
            recdocs = [d for d in docs if not (isinstance(d, dict) and d.get("_type") == "recorddescriptor")]
            if len(recdocs) != len(records) or (not descriptors and len(docs) != len(records)):
                viol.append(("C14:document-count:%s" % cfg, case, {"channel": ch, "docs": len(docs), "records": len(records)}))
                continue
            # (2) key set and (4) plain JSON values
            bad = False
            for r, d in zip(records, recdocs):
                slots = list(r.__slots__) if not isinstance(r, GroupedRecord) else list(dict.fromkeys(k for m in r.records for k in m.__slots__))
                want_keys = set(slots)
                if descriptors:
                    want_keys |= {"_type", "_recorddescriptor"}
                if not isinstance(d, dict) or set(d.keys()) != want_keys:
                    viol.append(("C14:keys:%s" % cfg, case, {"channel": ch, "keys": sorted(d.keys()) if isinstance(d, dict) else repr(d)[:80], "want": sorted(want_keys)}))
                    bad = True
                    break
                for k in slots:
                    want = expected_json_value(getattr(r, k))
                    if not json_eq(want, d[k]):
                        ft_ = r._field_types.get(k)
                        viol.append(("C14:json-value:%s:%s" % (getattr(ft_, "__name__", "?"), cfg if False else "any"), case,
                                     {"channel": ch, "field": k, "written": repr(d[k])[:120], "expected": repr(want)[:120]}))
                        bad = True
                        break
                if bad:
                    break
            if bad:
                outs.append("doc-diff")
                continue
            # (3) read back (the reader is line based: only without indentation)
            if indent is None and path is not None:
                try:
                    rd = RecordReader(path)
                    got, exc = drain(rd)
                    rd.close()
                except Exception as e:  # noqa: BLE001
                    got, exc = [], e
                if exc is not None:
                    viol.append(("C14:read-raises:%s:desc=%s:%s" % (tkey, descriptors, type(exc).__name__), case, {"channel": ch, "error": repr(exc)[:200]}))
                    outs.append("read-raise")
                    continue
                if descriptors and case["kind"] == "grouped":
                    # a grouped record comes back as its flat view: same type name, the union of the fields, the same values
                    if len(got) != len(records):
                        viol.append(("C14:roundtrip:grouped:count", case, {"channel": ch, "got": len(got), "want": len(records)}))
                        continue
                    for r, g in zip(records, got):
                        keys = list(dict.fromkeys(k for m in r.records for k in m.__slots__)) if isinstance(r, GroupedRecord) else list(r.__slots__)
                        if g._desc.name != r._desc.name or [k for k in g.__slots__ if not k.startswith("_")] != [k for k in keys if not k.startswith("_")] or set(g.__slots__) != set(keys) or any(obs(getattr(g, k)) != obs(getattr(r, k)) for k in keys):
                            viol.append(("C14:roundtrip:grouped:flat-view-differs", case, {"channel": ch, "read": repr(g)[:200]}))
                            break
                elif descriptors:
                    d_ = recs.list_diff(expected, obs_list(got))
                    if d_:
                        viol.append(("C14:roundtrip:%s:%s" % (d_[2], d_[3]), case, {"channel": ch, "index": d_[0], "where": d_[1]}))
                        outs.append("rt-diff")
                        continue
                else:
                    if len(got) != len(records):
                        viol.append(("C14:plain-read-count", case, {"channel": ch, "got": len(got), "want": len(records)}))
                        continue
                    for r, g, d in zip(records, got, recdocs):
                        for k in (r.__slots__ if not isinstance(r, GroupedRecord) else ()):
                            if k in ("_version", "_generated"):
                                continue  # (a timestamp is read back as a timestamp: C13's matter; the version stamp is the reader's)
                            jv = d[k]
                            if isinstance(jv, (dict, list)):
                                continue  # statement: same *scalar* JSON values
                            gv = getattr(g, k, None)
                            if not json_eq(expected_json_value(gv) if not isinstance(gv, bytes) else gv.decode("utf-8", "surrogateescape"), jv):
                                viol.append(("C14:plain-read-value:%s" % type(jv).__name__, case, {"channel": ch, "field": k, "json": repr(jv)[:80], "read": repr(gv)[:80]}))
                                break
            outs.append("ok")
        finally:
            if path:
                try:
                    os.unlink(path)
                except OSError:
                    pass
    seen = set()
    v2 = [v for v in viol if not (v[0] in seen or seen.add(v[0]))]
    nontrivial = any(any(s[1] != ["none"] for s in o[3][:-3]) for o in expected if o[0] == "rec")
    return {"ev": n, "h": h, "nt": nontrivial, "out": ["%s:%s" % (case["kind"], o) for o in sorted(set(outs))], "viol": v2,
            "sample": case if int(h, 16) % 499 == 0 else None}


def main(tier, seed, workers=None):
    run = Run(PROP, "exploration", tier, seed, RULE)
    run.assumptions = ["Python's json module is the notion of 'plain JSON' (NaN/Infinity tokens accepted)",
                       "indented output is checked as documents only: the adapter's reader is line based"]
    explore(run, cases(tier, seed), run_case, workers, chunk=16, reversed_pass=(tier == "thorough"))
    return run.finish(lambda case: [v[0] for v in run_case(case)["viol"]])
