"""C10 — reading with a selector equals filtering afterwards; matching is pure (matcher histories + adapter matrix)."""
from __future__ import annotations

import itertools
import os

from mc import recs, refsel, selgrammar, selhist
from mc.faults import drain
from mc.obs import obs, obs_list
from mc.recs import rs
from mc.report import Run, jhash
from mc.space import explore

PROP = "C10"
RULE = ("(a) matcher histories: for every selector of Ssel and every sequence of match(rec_i) of length <=3 (4 thorough) over 8 "
        "records, both engines: the last result (value or exception class) equals a fresh selector's on the same record, and the "
        "record is unchanged; states = distinct canonical matcher states (names bound in the matcher namespace + last record "
        "class). (b) adapters: 12 reader configurations x all record sequences <=3 over 4 record values x selectors x {text, Selector, "
        "CompiledSelector}: list(reader(selector=s)) == [r for r in reader() if fresh.match(r)] on obs incl. position/class of an "
        "exception. (c) selector pairs: every (first, second) of (raising programs + Ssel) x 13 probes on the same record object, the second "
        "result against the reference meaning. (d) long runs: one selector matched 130 (300) times on one record and alternately on every "
        "ordered pair of records, every result equal to the first. non-trivial = history longer than 1 / non-empty sequence")

SSEL = (
    selgrammar.GENS
    + ["%s == 'a'" % t for t in selgrammar.TYPES] + ["'a' in %s" % t for t in selgrammar.TYPES[:4]] + ["Type.string in ['a', 'ab']", "Type.varint > 2"]
    + selgrammar.CALLS
    + ["r.zz == 1", "r.zz != 1", "not r.zz", "r.o == 'other'", "r.n < 'a'", "r.s + 1 == 2", "r.l[0] == 'a'", "1 < r.n < 50", "r.n / r.m == 1",
       "any(x == 'a' for x in r.l) and any(x == 'b' for x in r.l)", "any(any(c == 'b' for c in x) for x in r.l)"]
    + ["r.n == 1", "r.n > r.m", "r.s == 'a'", "r.s in r.t", "r.b", "not r.b", "r.f < 1.6", "r.n + r.m == 4", "r.s == r.t", "r.l == ['a', 'b']",
       "r.p == '/bin/a'", "r.ip == '1.2.3.4'", "r.ip in net.ipnetwork('1.2.0.0/16')", "r.u.filename == 'a.txt'", "r.sub.s == 'a'", "r.none == None",
       "r.n in [1, 3]", "r.n and r.m", "r.s or r.t", "name(r) == 'sel/rec' and r.n == 1", "r._source == None", "True", "False", "r.n * 2 == 2",
       "r.n % 2 == 1", "r.n & 1", "r.n | 2", "lower(r.s) == upper(r.t)", "r.sub.n == r.n", "r.nw == '10.0.0.0/8'"]
)

_RECS = []


def hist_records():
    if not _RECS:
        from flow.record import GroupedRecord

        base = [recs.build_record(selgrammar.RECORDS[i]) for i in (0, 1, 2, 4)]
        other = recs.build_record(rs("sel/other", [["string", "o"], ["varint", "n"], ["string[]", "l"]], ["'other'", "77", "['a', 'b']"]))
        grouped = GroupedRecord("sel/grouped", [recs.build_record(selgrammar.RECORDS[5]), recs.build_record(
            rs("sel/other", [["string", "o"], ["varint", "n"]], ["'other'", "1"]))])
        _RECS.extend(base + [other, grouped, recs.build_record(selgrammar.SAME_NAME_OTHER_FIELDS), recs.build_record(selgrammar.SAME_NAMES_OTHER_TYPES),
                      recs.build_record(selgrammar.TWIN1), recs.build_record(selgrammar.TWIN2)])
        # grouped records of another make-up (one Python class for all of them, another flat field list each)
        _RECS.append(GroupedRecord("sel/grouped", [recs.build_record(rs("sel/extra", [["string", "only_here"], ["varint", "k"]], ["'a'", "3"])),
                                                   recs.build_record(rs("sel/other", [["string", "o"], ["varint", "n"]], ["'zz'", "1"]))]))
        _RECS.append(GroupedRecord("sel/grouped2", [recs.build_record(rs("sel/extra2", [["uri", "link"], ["string", "s"]], ["'http://h.example/d/a.txt'", "'ab'"]))]))
    return _RECS


_EQ = []
EQ_SEL = ["string(r.v) == '1'", "str(r.v) == 'True'", "string(r.v) == '1.0'", "str(r.v) == '0.0'", "str(r.v) == '-0.0'", "string(r.v) == 'False'", "varint(r.v) == 1 and str(r.v) == '1'",
          "r.v in [True]", "str(r.v) in ['1', '0']", "float(r.v) == 1 and str(r.v) == '1.0'", "repr(r.v) == '1'", "string(r.v) == string(1)", "str(r.v) == str(r.w)"]


def eq_records():
    if not _EQ:
        for t, v in (("varint", "1"), ("boolean", "True"), ("float", "1.0"), ("varint", "0"), ("boolean", "False"), ("float", "0.0"), ("float", "-0.0")):
            _EQ.append(recs.build_record(rs("sel/eq", [[t, "v"], ["varint", "w"]], [v, "1"])))
    return _EQ


def result_of(sel, rec):
    try:
        return ["v", bool(sel.match(rec))]
    except RecursionError:
        raise
    except Exception as e:  # noqa: BLE001
        return ["e", type(e).__name__]


def matcher_canon(sel, engine):
    if engine == "interpreted":
        m = sel.matcher
        if m is None:
            return ["nomatcher"]
        base = {"None", "True", "False", "str", "repr", "fields", "any", "all", "r", "Type", "lower", "upper", "name", "names", "get_type",
                "field_contains", "field_equals", "field_regex", "has_field"}
        return ["I", sorted(k for k in m.data if k not in base), type(m.rec).__name__ if m.rec is not None else None]
    return ["C", sorted(k for k in sel.ns if k in ("r", "Type"))]


RAISERS = ["Type.string < 5", "Type.varint < 'a'", "5 > Type.string", "Type.string + 1 == 2", "Type.uri.filename < 1", "r.n < 'a'", "r.s + 1 == 2", "r.l[0] == 'a'",
           "r.n / r.m == 1", "any(x < 1 for x in r.l)", "field_regex(r, ['n'], 'a')", "lower(r.s) < 1", "net.ipaddress(r.s) == r.ip", "r.ip in net.ipnetwork('bogus')"]
AFTER = ["Type.string == 'a'", "Type.varint > 2", "'ab' in Type.string", "Type.uri.filename == 'a.txt'", "Type.net.ipaddress == '1.2.3.4'", "r.s == 'a'", "r.n == 1",
         "any(x == 'a' for x in r.l)", "field_contains(r, ['s', 't'], ['a'])", "field_equals(r, Type.string, ['a'])", "lower(r.s) == 'a'", "r.sub.s == 'a'", "name(r) == 'sel/rec'"]


def run_pair(case):
    """Two different selectors, one after the other, on the same record object (the first may raise and the caller carries on):
    the second result must be what the reference meaning says, whatever the first one left behind anywhere in the process."""
    from flow.record.selector import CompiledSelector, Selector

    h = jhash(case)
    e1, e2, i = case["first"], case["second"], case["rec"]
    rec = hist_records()[i]
    viol = []
    outs = []
    for engine, cls in (("interpreted", Selector), ("compiled", CompiledSelector)):
        before = obs(rec)
        try:
            first = result_of(cls(e1), rec)
        except Exception:  # noqa: BLE001  (constructor refuses the program)
            first = ["e", "ctor"]
        try:
            second = result_of(cls(e2), rec)
        except Exception:  # noqa: BLE001
            outs.append("ctor-raises")
            continue
        if obs(rec) != before:
            viol.append(("C10:match-modified-record:%s" % engine, case, {"first": e1, "second": e2, "record": i}))
        ref = refsel.evaluate(e2, rec)
        if ref[0] == "value" and (engine == "interpreted" or not refsel.type_in_container(e2)) and refsel.in_language(e2, compiled=(engine == "compiled")) \
                and (second[0] != "v" or second[1] != ref[1]):
            viol.append(("C10:wrong-after-other-selector:%s:first-%s" % (engine, "raised" if first[0] == "e" else "value"), case,
                         {"first": e1, "first_result": first, "second": e2, "got": second, "reference": ref[1], "record": i}))
        outs.append("pair:%s:%s" % (engine[0], "first-raised" if first[0] == "e" else "first-value"))
    return {"ev": 4, "h": h, "nt": True, "out": outs, "viol": viol, "count": {"match_events": 4}}


def run_long(case):
    """ONE selector object matched 130 times on one record, or alternately on two: every result must equal the first one obtained for
    that record (a counter, a depth guard or a cache that creeps with the number of matches or of raised evaluations shows here)."""
    from flow.record.selector import CompiledSelector, Selector

    h = jhash(case)
    expr, idx, n = case["expr"], case["recs"], case["n"]
    rr = hist_records() if case.get("pool") != "eq" else eq_records()
    viol = []
    outs = []
    for engine, cls in (("interpreted", Selector), ("compiled", CompiledSelector)):
        try:
            sel = cls(expr)
        except Exception:  # noqa: BLE001
            outs.append("ctor-raises")
            continue
        first = {}
        for k in range(n):
            i = idx[k % len(idx)]
            got = result_of(sel, rr[i])
            if i not in first:
                first[i] = got
            elif got != first[i]:
                viol.append(("C10:result-drifts-with-repetition:%s:%s->%s" % (engine, "".join(map(str, first[i]))[:12], "".join(map(str, got))[:12]), case,
                             {"expr": expr, "records": idx, "repetition": k, "first": first[i], "now": got}))
                break
        outs.append("long:%s:%s" % (engine[0], "/".join(sorted({v[0] for v in first.values()}))))
    return {"ev": 2 * n, "h": h, "nt": True, "out": outs, "viol": viol, "count": {"match_events": 2 * n}}


def run_case(case):
    if case["kind"] == "manydesc":
        return selhist.run(case, "C10")
    if case["kind"] == "hist":
        return run_hist(case)
    if case["kind"] == "long":
        return run_long(case)
    if case["kind"] == "pair":
        return run_pair(case)
    return run_adapter(case)


def run_hist(case):
    from flow.record.selector import CompiledSelector, Selector

    h = jhash(case)
    expr, hist = case["expr"], case["hist"]
    rr = hist_records() if case.get("pool") != "eq" else eq_records()
    viol = []
    states = []
    outs = []
    for engine, cls in (("interpreted", Selector), ("compiled", CompiledSelector)):
        try:
            sel = cls(expr)
            fresh = cls(expr)
        except Exception:  # noqa: BLE001
            outs.append("ctor-raises")
            continue
        last = None
        for i in hist:
            before = obs(rr[i])
            last = result_of(sel, rr[i])
            if obs(rr[i]) != before:
                viol.append(("C10:match-modified-record:%s" % engine, case, {"expr": expr, "record": i}))
            states.append(jhash([expr, engine, matcher_canon(sel, engine)]))
        want = result_of(fresh, rr[hist[-1]])
        # a process-wide cache makes a "fresh" selector wrong in the same way: where the reference meaning is defined the
        # result must also be *right* after the history
        ref = refsel.evaluate(expr, rr[hist[-1]]) if len(hist) > 1 and last[0] == "v" else ("undefined",)
        if ref[0] == "value" and (engine == "interpreted" or not refsel.type_in_container(expr)) and refsel.in_language(expr, compiled=(engine == "compiled")) \
                and not refsel.identity_on_literal(expr) and last[1] != ref[1]:
            viol.append(("C10:wrong-after-history:%s" % engine, case, {"expr": expr, "history": hist, "got": last[1], "reference": ref[1]}))
        if last != want:
            viol.append(("C10:history-dependent:%s:%s->%s" % (engine, "".join(map(str, want))[:12], "".join(map(str, last))[:12]), case,
                         {"expr": expr, "history": hist, "with_history": last, "fresh": want}))
        outs.append("%s:%s" % (engine[0], last[0] + str(last[1])[:5]))
    return {"ev": 2 * len(hist), "h": h, "nt": len(hist) > 1, "out": outs, "viol": viol, "states": states,
            "count": {"match_events": 2 * len(hist)}, "sample": case if int(h, 16) % 4001 == 0 else None}


# ---- adapters --------------------------------------------------------------------------------------------------

VALS = {
    "x1": rs("t/a", [["string", "a"], ["varint", "n"]], ["'x'", "1"]),
    "y2": rs("t/a", [["string", "a"], ["varint", "n"]], ["'y'", "2"]),
    "Xn": rs("t/a", [["string", "a"], ["varint", "n"]], ["'X'", "None"]),
    "B": rs("t/b", [["string", "b"], ["string[]", "l"]], ["'x'", "['x', 'q']"]),
    "x3": rs("t/a", [["string", "a"], ["varint", "n"]], ["'xx'", "3"]),
    "x9": rs("t/a", [["string", "a"], ["varint", "n"]], ["'x'", "9"]),  # equals x1 when n is ignored for comparison
    # the next generation of t/a: one more field
    "A3": rs("t/a", [["string", "a"], ["varint", "n"], ["string", "d"]], ["'x'", "1", "'corp'"]),
    "A4": rs("t/a", [["string", "a"], ["varint", "n"], ["string", "d"]], ["'y'", "1", "'lab'"]),
    # two types of one name whose (name, hash) identifiers coincide
    "T1": rs("t/k", [["stringlist", "a"], ["string", "b"]], ["['x', 'q']", "'y'"]),
    "T2": rs("t/k", [["string", "a"], ["string", "listb"]], ["'q'", "'x'"]),
}
ADAPTERS = {
    "streamreader": ["x1", "y2", "Xn", "B"],
    "path": ["x1", "y2", "Xn", "B"],
    "path.gz": ["x1", "y2", "Xn", "B"],
    "jsonfile": ["x1", "y2", "Xn", "B"],
    "jsonfile-plain": ["x1", "y2", "Xn", "B"],
    "avro": ["x1", "y2", "Xn", "x3"],
    "csvfile": ["x1", "y2", "Xn", "x3"],
    "sqlite": ["x1", "y2", "Xn", "B"],
    "stream-url+fileobj": ["x1", "y2", "Xn", "B"],
    "jsonfile-url+fileobj": ["x1", "y2", "Xn", "B"],
    "avro-url+fileobj": ["x1", "y2", "Xn", "x3"],
    "fileobj": ["x1", "y2", "Xn", "B"],
    "csv-headerless-uri": ["x1", "y2", "Xn", "x3"],
    "concat": ["x1", "y2", "Xn", "B"],
    "concat.gz": ["x1", "y2", "Xn", "B"],
}
HEADERLESS_FIELDS = ["a", "n", "_generated"]  # (the timestamp column keeps two readings of the file comparable)
ASEL = ["r.n == 1", "r.n > 1", "r.a == 'x'", "'x' in r.a", "lower(r.a) == 'x'", "any(c == 'x' for c in r.a)", "Type.string == 'x'", "r.zz == 1",
        "name(r) == 't/a'", "field_contains(r, ['a'], ['X'])", "r.n in [1, 2]", "not r.n", "r.n == '1'", "r.a == 'x' and r.n", "True", "False",
        "r.b == 'x' or r.a == 'y'", "any(x == 'q' for x in r.l)", "r.n + 1 == 3", "1 < r.n < 3", "r._source == None", "Type.varint >= 2",
        "field_regex(r, ['a', 'b'], '^x')", "has_field(r, 'l')", "names(r) == names(r)", "r.n < 'a'",
        "r.n == 1 or name(r) == 't/b'", "r.zz == 1 or True", "r.n == 2 or has_field(r, 'b')", "r.n == 1 or Type.string == 'x'", "not r.n == 1",
        "r.n is not None", "r.zz != 1 or name(r) == 't/b'", "r.n == 9", "r.n != 9 and r.a == 'x'", "any(f.name == 'l' for f in fields('string[]'))", "field_contains(r, ['b', 'a'], ['x'])",
        "r.d == 'corp' and r.a == 'x'", "r.a == 'x' and r.d == 'corp'", "r.d == 'corp'", "r.n == 1 and r.d != 'lab'"]
_n = [0]


def write_source(adapter, records):
    from flow.record import RecordWriter

    d = os.environ["VERIF_SCRATCH"]
    _n[0] += 1
    base = os.path.join(d, "c10-%d-%d" % (os.getpid(), _n[0]))
    if adapter == "csv-headerless-uri":
        # a CSV file without header row; the column names travel in the URI (?fields=...), the selector comes as keyword
        import csv as _csv

        p = base + ".csv"
        with open(p, "w", newline="") as f:
            wr = _csv.writer(f)
            for r in records:
                wr.writerow([(getattr(r, k).isoformat() if k == "_generated" else getattr(r, k)) if getattr(r, k) is not None else "" for k in HEADERLESS_FIELDS])
        return p
    if adapter in ("concat", "concat.gz"):
        # `cat part1 part2`: two complete streams (each with its own header and descriptors) in one source
        import gzip

        p = base + (".records" if adapter == "concat" else ".records.gz")
        half = (len(records) + 1) // 2
        blob = b""
        for part in (records[:half], records[half:]):
            part_path = base + ".part"
            w = RecordWriter(part_path + ".records")
            for r in part:
                w.write(r)
            w.flush()
            w.close()
            data = open(part_path + ".records", "rb").read()
            os.unlink(part_path + ".records")
            blob += gzip.compress(data) if adapter == "concat.gz" else data
        with open(p, "wb") as f:
            f.write(blob)
        return p
    if adapter in ("streamreader", "path", "stream-url+fileobj", "fileobj"):
        p, uri = base + ".records", base + ".records"
    elif adapter == "jsonfile-url+fileobj":
        p, uri = base + ".json", base + ".json"
    elif adapter == "avro-url+fileobj":
        p, uri = base + ".avro", base + ".avro"
    elif adapter == "path.gz":
        p, uri = base + ".records.gz", base + ".records.gz"
    elif adapter == "jsonfile":
        p, uri = base + ".json", base + ".json"
    elif adapter == "jsonfile-plain":
        p, uri = base + ".json", "jsonfile://" + base + ".json?descriptors=false"
    elif adapter == "avro":
        p, uri = base + ".avro", base + ".avro"
    elif adapter == "csvfile":
        p, uri = base + ".csv", base + ".csv"
    else:
        p, uri = base + ".sqlite", "sqlite://" + base + ".sqlite"
    w = RecordWriter(uri)
    for r in records:
        w.write(r)
    w.flush()
    w.close()
    return p


# (a query string needs an explicit scheme: without one the adapter is guessed from the text after the last dot)
QUERY_DOOR = {"path": "stream://%s", "path.gz": "stream://%s", "jsonfile": "jsonfile://%s", "jsonfile-plain": "jsonfile://%s?descriptors=false", "avro": "avro://%s",
              "csvfile": "csvfile://%s", "sqlite": "sqlite://%s"}


def open_reader(adapter, p, selector=None, via_query=False):
    from flow.record import RecordReader, RecordStreamReader

    if adapter == "csv-headerless-uri":
        return RecordReader("csvfile://" + p + "?fields=" + ",".join(HEADERLESS_FIELDS), selector=selector)

    if via_query:
        # the selector travels inside the URI (?selector=...), no keyword argument at all
        from urllib.parse import quote

        uri = QUERY_DOOR[adapter] % p
        return RecordReader(uri + ("&" if "?" in uri else "?") + "selector=" + quote(selector, safe=""))

    if adapter == "streamreader":
        return RecordStreamReader(open(p, "rb"), selector=selector)
    if adapter == "sqlite":
        return RecordReader("sqlite://" + p, selector=selector)
    if adapter == "stream-url+fileobj":
        return RecordReader("stream://", fileobj=open(p, "rb"), selector=selector)
    if adapter == "jsonfile-url+fileobj":
        return RecordReader("jsonfile://", fileobj=open(p, "r"), selector=selector)
    if adapter == "avro-url+fileobj":
        return RecordReader("avro://", fileobj=open(p, "rb"), selector=selector)
    if adapter == "fileobj":
        return RecordReader(fileobj=open(p, "rb"), selector=selector)
    return RecordReader(p, selector=selector)


def read_all(adapter, p, selector=None, via_query=False):
    try:
        rd = open_reader(adapter, p, selector, via_query)
    except Exception as e:  # noqa: BLE001
        return [], e
    got, exc = drain(rd)
    try:
        rd.close()
        if adapter == "streamreader":
            rd.fp.close()
    except Exception:  # noqa: BLE001
        pass
    return got, exc


def run_adapter(case):
    from flow.record import base
    from flow.record.selector import CompiledSelector, Selector

    if case.get("ignore"):
        base.set_ignored_fields_for_comparison(case["ignore"])
        try:
            return _run_adapter(case)
        finally:
            base.set_ignored_fields_for_comparison([])
    return _run_adapter(case)


def _run_adapter(case):
    from flow.record.selector import CompiledSelector, Selector

    h = jhash(case)
    adapter, seq = case["adapter"], case["seq"]
    records = [recs.build_record(VALS[k]) for k in seq]
    viol = []
    outs = []
    n = 0
    try:
        p = write_source(adapter, records)
    except Exception as e:  # noqa: BLE001 (writer refusal, e.g. avro mixed types: not this property)
        return {"ev": 1, "h": h, "nt": False, "out": "%s:write-raises-%s" % (adapter, type(e).__name__)}
    try:
        plain, pexc = read_all(adapter, p)
        if pexc is not None:
            return {"ev": 1, "h": h, "nt": False, "out": "%s:plain-read-raises-%s" % (adapter, type(pexc).__name__)}
        oplain = obs_list(plain)
        for expr in ASEL:
            for how in ("text", "Selector", "CompiledSelector") + (("uri-query",) if adapter in QUERY_DOOR else ()):
                n += 1
                if how in ("text", "uri-query"):
                    given, fresh = expr, Selector(expr)
                elif how == "Selector":
                    given, fresh = Selector(expr), Selector(expr)
                else:
                    given, fresh = CompiledSelector(expr), CompiledSelector(expr)
                got, gexc = read_all(adapter, p, given, via_query=(how == "uri-query"))
                want = []
                wexc = None
                for r, o in zip(plain, oplain):
                    try:
                        if fresh.match(r):
                            want.append(o)
                    except Exception as e:  # noqa: BLE001
                        wexc = e
                        break
                ogot = obs_list(got)
                same = ogot == want and (type(gexc).__name__ if gexc else None) == (type(wexc).__name__ if wexc else None)
                outs.append("%s:%s" % (adapter, "same" if same else "diff"))
                if not same:
                    what = "exception" if (gexc is None) != (wexc is None) or type(gexc) is not type(wexc) else (
                        "fewer" if len(ogot) < len(want) else "more" if len(ogot) > len(want) else "different")
                    viol.append(("C10:adapter:%s:%s:%s" % (adapter, how, what), dict(case, expr=expr, how=how),
                                 {"expr": expr, "how": how, "with_selector": len(ogot), "post_filter": len(want),
                                  "exc_with": repr(gexc)[:100], "exc_post": repr(wexc)[:100]}))
        # reading WITHOUT a selector after all those reads with one gives what the very first plain read gave (the same path / url
        # string was opened with selectors in between: nothing of them may stick to it)
        again, aexc = read_all(adapter, p)
        if obs_list(again) != oplain or aexc is not None:
            viol.append(("C10:adapter:%s:plain-read-differs-after-reads-with-selectors" % adapter, case, {"first": len(oplain), "now": len(again), "exc": repr(aexc)[:100]}))
        if adapter in QUERY_DOOR:
            again, aexc = read_all(adapter, p, "False", via_query=True)
            again2, aexc2 = read_all(adapter, p)
            if again or obs_list(again2) != oplain:
                viol.append(("C10:adapter:%s:plain-read-differs-after-reads-with-selectors:uri-query" % adapter, case, {"with_False": len(again), "plain_now": len(again2)}))
    finally:
        try:
            os.unlink(p)
        except OSError:
            pass
    seen = set()
    v2 = [v for v in viol if not (v[0] in seen or seen.add(v[0]))]
    return {"ev": n, "h": h, "nt": len(seq) > 0, "out": sorted(set(outs)), "viol": v2, "count": {"adapter_reads": n},
            "sample": case if int(h, 16) % 211 == 0 else None}


def cases(tier):
    L = 4 if tier == "thorough" else 3
    nrec = 12
    for expr in SSEL:
        for k in range(1, L + 1):
            for hist in itertools.product(range(nrec), repeat=k):
                yield {"kind": "hist", "expr": expr, "hist": list(hist)}
    reps = 300 if tier == "thorough" else 130
    for expr in list(SSEL) + RAISERS + selgrammar.LONG_LITERALS[:6]:
        for i in range(nrec):
            yield {"kind": "long", "expr": expr, "recs": [i], "n": reps}
    for expr in RAISERS + selgrammar.GENS + ["r.n > 1000 or r.s == 'a'", "r.none > 5 or r.n == 1", "r.none < r.n and r.s == 'a'", "r.zz > 1 or r.n == 1", "not r.none > 1"]:
        for i, j in itertools.product(range(nrec), repeat=2):
            if i != j:
                yield {"kind": "long", "expr": expr, "recs": [i, j], "n": reps}
    for e1 in RAISERS + list(SSEL)[:: (1 if tier == "thorough" else 4)]:
        for e2 in AFTER:
            for i in range(nrec):
                yield {"kind": "pair", "first": e1, "second": e2, "rec": i}
    yield from selhist.cases(tier)
    for expr in EQ_SEL:
        for k in range(1, L + 1):
            for hist in itertools.product(range(7), repeat=k):
                yield {"kind": "hist", "pool": "eq", "expr": expr, "hist": list(hist)}
    for adapter, alphabet in ADAPTERS.items():
        for k in range(0, 4):
            for seq in itertools.product(alphabet, repeat=k):
                if adapter in ("avro", "avro-url+fileobj") and k == 0:
                    continue
                yield {"kind": "adapter", "adapter": adapter, "seq": list(seq)}
    for adapter in ("streamreader", "path", "jsonfile", "sqlite", "concat"):
        for k in (2, 3):
            for seq in itertools.product(["T1", "T2", "x1"], repeat=k):
                if "T1" in seq and "T2" in seq:
                    yield {"kind": "adapter", "adapter": adapter, "seq": list(seq)}
    for adapter in ("streamreader", "path", "path.gz", "fileobj", "jsonfile", "sqlite", "concat", "stream-url+fileobj"):
        for k in (2, 3, 4):
            for seq in itertools.product(["x1", "A3", "A4", "y2"], repeat=k):
                if ("A3" in seq or "A4" in seq) and ("x1" in seq or "y2" in seq) and (k < 4 or tier == "thorough" or seq[0] in ("A3", "x1")):
                    yield {"kind": "adapter", "adapter": adapter, "seq": list(seq)}
    # the same under an active comparison-ignore configuration: records that differ only in an ignored field are "equal"
    for adapter in ("streamreader", "path", "path.gz", "fileobj", "jsonfile", "sqlite"):
        for k in (2, 3):
            for seq in itertools.product(["x1", "x9", "y2"], repeat=k):
                yield {"kind": "adapter", "adapter": adapter, "seq": list(seq), "ignore": ["n", "_generated", "_source"]}


def main(tier, seed, workers=None):
    run = Run(PROP, "model_checking", tier, seed, RULE)
    hist_records()
    explore(run, cases(tier), run_case, workers, chunk=64)
    run.states = max(1, len(run.state_hashes))
    run.transitions = run.extra.get("match_events", 0) + run.extra.get("adapter_reads", 0)
    run.traces = run.transitions
    run.extra["selectors_history"] = len(SSEL)
    run.extra["selectors_adapters"] = len(ASEL)
    return run.finish(lambda case: [v[0] for v in run_case(case)["viol"]])
