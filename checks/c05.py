"""C05 — record fields always hold values of their declared type (assignment histories per field type)."""
from __future__ import annotations

import io
import itertools
import warnings

from mc import envleg, lit, recs
from mc.obs import obs
from mc.report import Run, jhash
from mc.space import explore

PROP = "C05"
RULE = ("per field type T: record with fields (T x, T[] xs) [and a keyword-named twin]; candidates = valid, boundary, just outside, "
        "wrong kind, already-typed values; ALL histories of assignments (x := c, xs := [c], xs := [typed, c]) up to length 2 (3 thorough) "
        "with construct / _replace / init_from_dict / grouped routed assignment / decode (stream, JSON) probes after every step; "
        "invariant per state: slot is None, the empty default, or an instance of the declared class (elements too), timestamps aware, "
        "text is str; a raising operation leaves the record unchanged; an accepting one leaves it serialisable; listed "
        "unrepresentable values must be rejected; typed values of one type offered to every other list type after use in their own; "
        "depth-1 histories repeated in child interpreters under FLOW_RECORD_TZ / FLOW_RECORD_IGNORE settings. states = distinct slot observations; non-trivial = history with an accepted value")

V = "valid"
R = "must-reject"
W = "wrong-kind"  # only the invariant is demanded: reject or convert

CAND = {
    "string": [("'a'", V), ("''", V), ("b'raw\\xff'", V), ("'\\udc80'", V), ("5", W), ("1.5", W), ("['a']", W), ("None", V), ("chr(0xd800)", V)],
    "wstring": [("'w'", V), ("b'\\xfe'", V), ("7", W), ("None", V)],
    "uri": [("'http://h/p'", V), ("b'http://\\xff'", V), ("5", W), ("None", V)],
    "bytes": [("b'a'", V), ("b''", V), ("'text'", R), ("5", R), ("['a']", R), ("bytes(3)", V), ("None", V), ("1.5", R), ("bytearray(b'ab')", W), ("memoryview(b'ab')", W)],
    "varint": [("0", V), ("-2**70", V), ("True", W), ("1.5", W), ("'5'", W), ("'x'", W), ("None", V), ("[1]", W)],
    "filesize": [("0", V), ("2**64", V), ("'12'", W), ("None", V)],
    "unix_file_mode": [("0o644", V), ("-1", V), ("'0644'", W), ("None", V)],
    "uint16": [("0", V), ("65535", V), ("65536", R), ("-1", R), ("2**31", R), ("True", W), ("1.5", W), ("'5'", W), ("None", V), ("70000", R)],
    "uint32": [("0", V), ("2**32-1", V), ("2**32", R), ("-1", R), ("2**64", R), ("1.5", W), ("None", V)],
    "net.tcp.Port": [("80", V), ("65535", V), ("65536", R), ("-1", R), ("None", V)],
    "net.udp.Port": [("53", V), ("65536", R), ("-5", R), ("None", V)],
    "boolean": [("True", V), ("False", V), ("0", V), ("1", V), ("2", R), ("-1", R), ("255", R), ("0.5", W), ("'1'", W), ("None", V)],
    "float": [("1.5", V), ("nan", V), ("3", V), ("'1.5'", W), ("'x'", W), ("None", V), ("True", W)],
    "datetime": [("dt(2020,1,1)", V), ("dt(2020,1,1,tz=off(5,30))", V), ("'2020-01-01T00:00:00'", V), ("1600000000", V), ("'not a date'", W), ("None", V),
                 ("b'2020-01-01'", V), ("1e20", W), ("0", V), ("0.0", V), ("False", W),
                 ("dt(1,1,1,0,0,0)", V), ("dt(9999,12,31,23,59,59,999999)", V),
                 # values built through the field type class itself, by every constructor it inherits
                 ("ft.datetime(2020,1,1,tzinfo=None)", V), ("ft.datetime(2020,1,1,0,0,0,0,None)", V), ("ft.datetime(2020,1,1,0,0,0,0)", V),
                 ("ft.datetime.combine(date(2020,1,1), time(1,2,3))", V), ("ft.datetime.combine(date(2020,1,1), time(1,2,3,tzinfo=off(2)))", V),
                 ("ft.datetime.fromtimestamp(86400)", V), ("ft.datetime.utcfromtimestamp(86400)", V), ("ft.datetime.fromtimestamp(86400, UTC)", V),
                 ("ft.datetime.fromisoformat('2020-01-01T00:00:00')", V),
                 ("ft.datetime.fromordinal(737425)", V), ("ft.datetime(2020,1,1) + (dt(2020,1,2) - dt(2020,1,1))", V)],
    "digest": [("('d41d8cd98f00b204e9800998ecf8427e', None, None)", V), ("(None, 'da39a3ee5e6b4b0d3255bfef95601890afd80709', None)", V),
               ("('d41d8cd98f00b204e9800998ecf8427e00', None, None)", R), ("('d41d8cd98f00b204e9800998ecf842', None, None)", R), ("('zz1d8cd98f00b204e9800998ecf8427e', None, None)", R),
               ("(None, 'd41d8cd98f00b204e9800998ecf8427e', None)", R), ("(None, None, 'd41d8cd98f00b204e9800998ecf8427e')", R),
               ("('da39a3ee5e6b4b0d3255bfef95601890afd80709', None, None)", R), ("{'md5': 'd41d8cd98f00b204e9800998ecf8427e'}", V), ("{'sha1': 'abc'}", R),
               ("('d41d8cd98f00b204e9800998ecf8427e\\n', None, None)", R), ("('d41d8cd98f00b204 e9800998ecf8427e00', None, None)", R), ("(' d41d8cd98f00b204e9800998ecf8427e', None, None)", R),
               ("('d41d8cd98f00b204e9800998ecf8427\\te0', None, None)", R), ("(None, 'da39a3ee5e6b4b0d3255bfef95601890afd80709\\r\\n', None)", R),
               ("('0x1d8cd98f00b204e9800998ecf8427e', None, None)", R), ("('d41d_cd98f00b204e9800998ecf8427e', None, None)", R), ("('+41d8cd98f00b204e9800998ecf8427e', None, None)", R),
               ("(None, '0Xa39a3ee5e6b4b0d3255bfef95601890afd8070', None)", R), ("(None, None, '-3b0c44298fc1c149afbf4c8996fb92427ae41e4649b934ca495991b7852b85')", R),
               ("None", V), ("(None, None, None)", V)],
    "path": [("'/a/b'", V), ("''", V), ("windows_path('C:\\\\a')", V), ("PWP('D:\\\\x')", V), ("5", W), ("None", V), ("b'/raw'", W)],
    "command": [("'ls -l'", V), ("'C:\\\\x.exe /a'", V), ("5", W), ("None", V), ("['ls']", W)],
    "net.ipaddress": [("'1.2.3.4'", V), ("'::1'", V), ("2**32", V), ("float(2**32)", R), ("1", V), ("1.0", R), ("True", W), ("3232235777", V), ("3232235777.0", R), ("'1.2.3'", R), ("'999.1.1.1'", R), ("'1.2.3.4/24'", R), ("'gggg::1'", R), ("-1", R), ("2**128", R),
                      ("None", V), ("''", R)],
    "net.ipnetwork": [("'10.0.0.0/8'", V), ("'::/0'", V), ("'10.0.0.1/8'", R), ("'10.0.0.0/33'", R), ("'x/8'", R), ("None", V), ("''", R)],
    "net.ipv4.Address": [("'1.2.3.4'", V), ("5", V), ("None", V)],
    "net.ipv4.Subnet": [("'10.0.0.0/8'", V), ("'10.0.0.1/8'", W), ("None", V)],
    "stringlist": [("['a']", V), ("[]", V), ("'abc'", W), ("None", V)],
    "dictlist": [("[{'a': 1}]", V), ("[]", V), ("None", V)],
    "dynamic": [("'s'", V), ("5", V), ("b'b'", V), ("True", V), ("dt(2020,1,1)", V), ("['a']", V), ("1.5", W), ("{'a': 1}", W), ("None", V), ("posix_path('/p')", V)],
}
TYPED_SEED = {  # an already-typed valid element to put in front of a raw one
    "uint16": "ft.uint16(5)", "uint32": "ft.uint32(5)", "string": "ft.string('t')", "bytes": "ft.bytes(b't')", "boolean": "ft.boolean(1)", "varint": "ft.varint(1)",
    "net.ipaddress": "fip('9.9.9.9')", "digest": "fdigest(('d41d8cd98f00b204e9800998ecf8427e', None, None))", "datetime": "ft.datetime(2020,1,1)",
    "net.tcp.Port": "ft.net.tcp.Port(1)", "float": "ft.float(1.0)", "path": "posix_path('/t')", "uri": "ft.uri('u')", "net.ipnetwork": "fnet('10.0.0.0/8')",
}
LIST_TYPES = ["string", "bytes", "varint", "uint16", "uint32", "boolean", "float", "datetime", "digest", "path", "net.ipaddress", "net.ipnetwork", "net.tcp.Port", "uri"]


def slot_invariant(rec, where, case, viol):
    import datetime as _d

    from flow.record import Record
    from flow.record import fieldtypes as ft
    from flow.record.base import FieldType

    for k in rec.__slots__:
        v = getattr(rec, k)
        ftype = rec._field_types.get(k)
        if v is None or ftype is None:
            continue
        tname = getattr(ftype, "__name__", str(ftype))
        if ftype is ft.record:
            ok = isinstance(v, Record)
        elif ftype is ft.dynamic:
            ok = isinstance(v, FieldType)
        elif getattr(ftype, "__type__", None) is not None and issubclass(ftype, list):
            et = ftype.__type__
            ok = isinstance(v, list) and all((isinstance(e, Record) if et is ft.record else isinstance(e, et)) for e in v)
            if ok and et is ft.datetime and any(e.tzinfo is None for e in v):
                ok = False
        else:
            ok = isinstance(v, ftype)
        if ok and isinstance(v, _d.datetime) and v.tzinfo is None:
            viol.append(("C05:naive-timestamp:%s:%s" % (tname, where), case, {"field": k}))
        if ok and ftype in (ft.string, ft.uri) and not isinstance(v, str):
            ok = False
        if ok and ftype is ft.uri and not all(isinstance(getattr(v, a, ""), str) for a in ("scheme", "netloc", "path", "filename")):
            viol.append(("C05:slot-not-declared-type:uri:%s:parts-not-text" % where, case, {"field": k, "scheme": repr(getattr(v, "scheme", None))}))
        if ok and ftype is ft.bytes and type(getattr(v, "value", b"")) is not bytes:
            # the payload the packers write must be the immutable value the field shows, not the caller's buffer
            viol.append(("C05:slot-not-declared-type:bytes:%s:payload-%s" % (where, type(v.value).__name__), case, {"field": k}))
        if not ok:
            kind = type(v).__name__ if not isinstance(v, list) else "list[%s]" % ",".join(sorted({type(e).__name__ for e in v}))
            viol.append(("C05:slot-not-declared-type:%s:%s:holds-%s" % (tname, where, kind), case, {"field": k, "value": repr(v)[:80]}))


def text_class(rec):
    """':lone-surrogate' when some text held by the record contains a surrogate that is no escaped byte (U+DC80..U+DCFF)."""
    def walk(v):
        if isinstance(v, str):
            return any(0xD800 <= ord(c) <= 0xDFFF and not 0xDC80 <= ord(c) <= 0xDCFF for c in v)
        if isinstance(v, (list, tuple)):
            return any(walk(x) for x in v)
        return False

    return ":lone-surrogate" if any(walk(getattr(rec, k)) for k in rec.__slots__) else ""


def serialisable(rec):
    from flow.record import RecordStreamWriter

    buf = io.BytesIO()
    w = RecordStreamWriter(buf)
    try:
        w.write(rec)
        return None, buf.getvalue()
    except Exception as e:  # noqa: BLE001
        return e, None
    finally:
        w.fp = None


def decode_probes(rec, data, t, case, viol):
    from flow.record import JsonRecordPacker, RecordStreamReader

    with warnings.catch_warnings():
        warnings.simplefilter("ignore")
        try:
            back = list(RecordStreamReader(io.BytesIO(data)))
            for b in back:
                slot_invariant(b, "decoded-from-stream", case, viol)
        except Exception as e:  # noqa: BLE001
            viol.append(("C05:decode-stream-raises:%s:%s" % (t, type(e).__name__), case, {"error": repr(e)[:200]}))
    if t in ("string", "varint", "uint16", "uint32", "boolean", "float", "datetime", "bytes", "digest", "net.ipaddress", "net.ipnetwork", "uri", "path", "filesize"):
        try:
            p = JsonRecordPacker()
            lines = []
            p.on_descriptor.add_handler(lambda d: lines.append(p.pack(d)))
            line = p.pack(rec)
            q = JsonRecordPacker()
            for ln in lines:
                q.unpack(ln)
            slot_invariant(q.unpack(line), "decoded-from-json", case, viol)
        except Exception:  # noqa: BLE001  (JSON support per type is C14's subject)
            pass


def apply_event(rec, ev):
    """-> exception or None"""
    kind, spec = ev
    val = lit.ev(spec)
    try:
        if kind == "x":
            rec.x = val
        elif kind == "xs":
            rec.xs = val
        elif kind == "from":
            setattr(rec, "from", val)
        return None
    except Exception as e:  # noqa: BLE001
        return e


WIRE = [
    ("digest", ["bin:" + "aa" * 15, None, None]), ("digest", [None, "bin:" + "aa" * 16, None]), ("digest", [None, None, "bin:" + "aa" * 40]), ("digest", ["bin:" + "aa" * 16, None, None]),
    ("uint16", 70000), ("uint16", -1), ("uint32", 2**32), ("boolean", 2), ("boolean", -1), ("net.tcp.Port", 65536), ("net.ipaddress", "not an address"), ("net.ipaddress", -5),
    ("net.ipnetwork", "10.0.0.1/8"), ("bytes", "text on the wire"), ("uint16", 65535), ("boolean", True), ("datetime", "str:2020-01-01T00:00:00"),
]


def run_wire(case):
    """Deliver a crafted record frame (reference codec) whose field value the declared type cannot represent."""
    from flow.record import RecordStreamReader
    from mc import refcodec

    h = jhash(case)
    t, wire = case["t"], case["wire"]

    def conv(x):
        if isinstance(x, str) and x.startswith("bin:"):
            return refcodec.Bin(bytes.fromhex(x[4:]))
        if isinstance(x, str) and x.startswith("str:"):
            return x[4:]
        if isinstance(x, list):
            return [conv(y) for y in x]
        return x

    viol = []
    fields = [[t, "x"], [t + "[]", "xs"]] if t in LIST_TYPES else [[t, "x"]]
    hdr = refcodec.frame(refcodec.mp_encode(refcodec.Bin(refcodec.MAGIC)))
    desc = refcodec.frame(refcodec.mp_encode(refcodec.Ext(14, refcodec.mp_encode([2, ["f/wire", fields]]))))
    ident = ["f/wire", refcodec.desc_hash("f/wire", [(a, b) for a, b in fields])]
    out = "ok"
    for slot in (["x"] if len(fields) == 1 else ["x", "xs"]):
        vals = [conv(wire) if slot == "x" else None] + ([[conv(wire)] if slot == "xs" else None] if len(fields) == 2 else []) + [None, None, None, 1]
        rec = refcodec.frame(refcodec.mp_encode(refcodec.Ext(14, refcodec.mp_encode([1, [ident, vals]]))))
        try:
            with warnings.catch_warnings():
                warnings.simplefilter("ignore")
                got = list(RecordStreamReader(io.BytesIO(hdr + desc + rec)))
            for g in got:
                slot_invariant(g, "decoded-from-foreign-stream", case, viol)
                value_invariant(g, t, slot, case, viol)
            out = "accepted"
        except Exception:  # noqa: BLE001
            out = "rejected"
    return {"ev": 1, "h": h, "nt": True, "out": "wire:%s:%s" % (t, out), "viol": viol}


def value_invariant(rec, t, slot, case, viol):
    """A decoded value must be one the type can represent (the same rules construction enforces)."""
    from flow.record import fieldtypes as ft

    v = getattr(rec, slot)
    vs = v if isinstance(v, list) else [v]
    for x in vs:
        bad = None
        if isinstance(x, ft.digest):
            for nm, ln in (("md5", 32), ("sha1", 40), ("sha256", 64)):
                hx = getattr(x, nm)
                if hx is not None and len(hx) != ln:
                    bad = "%s-length-%d" % (nm, len(hx))
        elif isinstance(x, ft.uint16) and not (0 <= x.value <= 0xFFFF):
            bad = "uint16-out-of-range"
        elif isinstance(x, ft.uint32) and not (0 <= x.value <= 0xFFFFFFFF):
            bad = "uint32-out-of-range"
        elif isinstance(x, ft.boolean) and x.value not in (True, False):
            bad = "boolean-not-0/1"
        if bad:
            viol.append(("C05:decoded-unrepresentable-value:%s:%s" % (t, bad), case, {"slot": slot, "value": repr(x)[:80]}))


def expected_conversion(t, given):
    """The stored value the statement itself prescribes for an input, or (False, None) when it prescribes none."""
    import datetime as _d

    if t in ("string", "wstring", "uri"):
        if type(given) is bytes:
            return True, given.decode("utf-8", "surrogateescape")
        if type(given) is str:
            return True, given
    if t == "bytes" and type(given) is bytes:
        return True, given
    if t == "datetime" and type(given) is _d.datetime:
        return True, given.replace(tzinfo=_d.timezone.utc) if given.tzinfo is None else given
    if t in ("varint", "uint16", "uint32", "filesize") and type(given) is int:
        return True, given
    return False, None


def conversion_invariant(rec, t, fname, spec, case, viol):
    """input is converted on the way in: bytes -> text with surrogate escapes, naive timestamp -> the same wall clock in UTC, ..."""
    try:
        given = lit.ev(spec)
    except Exception:  # noqa: BLE001
        return
    stored = getattr(rec, fname)
    pairs = list(zip(given, stored)) if isinstance(given, (list, tuple)) and isinstance(stored, list) and len(given) == len(stored) else [(given, stored)]
    for g, st in pairs:
        ok, want = expected_conversion(t, g)
        if not ok or st is None:
            continue
        same = (st == want and (not hasattr(want, "utcoffset") or st.utcoffset() == want.utcoffset())) if not isinstance(want, (str, bytes)) else (
            (str(st) if isinstance(want, str) else bytes(st)) == want)
        if not same:
            viol.append(("C05:converted-to-another-value:%s:%s-input" % (t, type(g).__name__), case, {"field": fname, "given": repr(g)[:80], "stored": repr(st)[:80], "want": repr(want)[:80]}))


META_VALUES = {
    "_source": ["b'by\\xff'", "'txt'", "''", "5", "None", "S('s', 300)"],
    "_classification": ["b'by\\xff'", "'tlp'", "''", "0", "None"],
    "_generated": ["dt(2020,1,1,1,2,3)", "dt(2020,1,1,tz=off(5,30))", "1600000000", "0", "'2022-02-02T02:02:02'", "None", "dt(2020,10,25,2,30,tz=Z('Europe/Amsterdam'),fold=1)"],
}


def run_meta(case):
    """The reserved fields are fields too: the same conversion through every door, for both generated-class templates."""
    from flow.record import GroupedRecord, RecordStreamReader

    h = jhash(case)
    fname, spec = case["meta"]
    viol = []
    outs = []
    fields = [["string", "from"], ["varint", "n"]] if case.get("keyword") else [["string", "x"], ["varint", "n"]]
    desc = recs.descriptor("f/meta" + ("kw" if case.get("keyword") else ""), fields)
    base = desc.recordType(**{fields[0][1]: "v", "n": 1})
    for door in ("construct", "construct-positional", "assign", "replace", "init_from_dict", "grouped-assign", "stream"):
        try:
            v = lit.ev(spec)
            if door == "construct":
                out = desc.recordType(**{fname: v, "n": 2})
            elif door == "construct-positional":
                if case.get("keyword"):
                    continue
                out = desc.recordType("v", 3, **{fname: v})
            elif door == "assign":
                out = desc.recordType(n=4)
                setattr(out, fname, v)
            elif door == "replace":
                out = base._replace(**{fname: v})
            elif door == "init_from_dict":
                out = desc.init_from_dict({fname: v, "n": 5})
            elif door == "grouped-assign":
                out = desc.recordType(n=6)
                g = GroupedRecord("f/g", [out, recs.descriptor("f/other", [["string", "o"]])(o="o")])
                setattr(g, fname, v)
                out = g.records[0] if fname != "_generated" else out
            else:
                first = desc.recordType(**{fname: v, "n": 7})
                err, data = serialisable(first)
                if err is not None:
                    viol.append(("C05:accepted-but-unserialisable:meta:%s:%s" % (fname, type(err).__name__), case, {"error": repr(err)[:200]}))
                    continue
                with warnings.catch_warnings():
                    warnings.simplefilter("ignore")
                    out = list(RecordStreamReader(io.BytesIO(data)))[0]
            outs.append("accepted")
        except Exception:  # noqa: BLE001
            outs.append("rejected")
            continue
        slot_invariant(out, "meta:%s:%s" % (fname, door), case, viol)
    seen = set()
    return {"ev": 7, "h": h, "nt": "accepted" in outs, "out": ["meta:%s" % o for o in sorted(set(outs))], "viol": [v for v in viol if not (v[0] in seen or seen.add(v[0]))]}


def run_twins(case):
    h = jhash(case)
    a, b = case["twins"]
    viol = []
    import flow.record.base as base

    base.fieldtype.cache_clear()
    base._generate_record_class.cache_clear()
    recs._DESC_CACHE.clear()
    desc = recs.descriptor("f/twins", [[a + "[]", "xs"], [b + "[]", "ys"]])
    gen = lit.ev("dt(2020,1,1,tz=UTC)")
    val = {"net.tcp.Port": 80, "net.udp.Port": 53, "net.ipaddress": "1.2.3.4", "net.IPAddress": "1.2.3.4", "string": "s", "wstring": "w", "varint": 1, "filesize": 2}
    r = desc.recordType(xs=[val[a]], ys=[val[b]], _generated=gen)
    slot_invariant(r, "constructed", case, viol)
    want = {n: base.fieldtype(tn) for n, tn in (("xs", a), ("ys", b))}
    for n, cls in want.items():
        for e in getattr(r, n):
            if type(e) is not cls:
                viol.append(("C05:list-element-of-sibling-type:%s" % "+".join(sorted([a, b])), case, {"field": n, "element_class": repr(type(e)), "declared": repr(cls)}))
    err, data = serialisable(r)
    if err is None:
        decode_probes(r, data, a, case, viol)
    return {"ev": 1, "h": h, "nt": True, "out": "twins:%s" % ("ok" if not viol else "bad"), "viol": viol}


# already-typed values of one field type offered to a field / list of ANOTHER type: (literal, {other type: must-reject})
FOREIGN = [
    ("ft.uint32(70000)", {"uint16": R, "boolean": R, "net.tcp.Port": R, "bytes": R}),
    ("ft.uint32(5)", {"boolean": R, "bytes": R}),
    ("ft.varint(2**40)", {"uint16": R, "uint32": R, "boolean": R, "net.tcp.Port": R, "bytes": R}),
    ("ft.varint(-1)", {"uint16": R, "uint32": R, "boolean": R, "net.tcp.Port": R, "bytes": R}),
    ("ft.string('not an address')", {"net.ipaddress": R, "net.ipnetwork": R, "bytes": R}),
    ("ft.string('1.2.3.4/24')", {"net.ipaddress": R, "bytes": R}),
    ("ft.uri('text')", {"bytes": R, "net.ipaddress": R}),
    ("ft.float(1.5)", {"bytes": R}),
    ("ft.boolean(1)", {"bytes": R}),
    ("ft.bytes(b'raw')", {}),
    ("ft.net.tcp.Port(80)", {"boolean": R, "bytes": R}),
    ("fip('9.9.9.9')", {"bytes": R}),
    ("posix_path('/t')", {"bytes": R}),
    ("ft.datetime(2020,1,1)", {"bytes": R}),
]
FOREIGN_HOME = {"ft.uint32": "uint32", "ft.varint": "varint", "ft.string": "string", "ft.uri": "uri", "ft.float": "float", "ft.boolean": "boolean", "ft.bytes": "bytes",
                "ft.net.tcp.Port": "net.tcp.Port", "fip": "net.ipaddress", "posix_path": "path", "ft.datetime": "datetime"}


def run_cross(case):
    """One process-level history: a typed value is first stored where it belongs (home[] and home), then offered to a list and a
    scalar field of another type. The second step must convert or refuse exactly as it does in a fresh process."""
    h = jhash(case)
    spec, home, other, expect = case["cross"]
    viol = []
    desc = recs.descriptor("f/cross", [[home + "[]", "hs"], [other + "[]", "os"], [other, "o"]])
    gen = lit.ev("dt(2020,1,1,tz=UTC)")
    rec = desc.recordType(_generated=gen)
    outs = []
    for fname, vspec in (("hs", "[%s]" % spec), ("os", "[%s]" % spec), ("o", spec), ("os", "[%s, %s]" % (spec, spec)), ("os", "<typed list of the home field>")):
        before = obs(rec)
        try:
            if vspec.startswith("<"):
                # the typed list object another field (of this or another record) holds, handed over as it is
                donor = desc.recordType(_generated=gen)
                donor.hs = [lit.ev(spec), lit.ev(spec)]
                setattr(rec, fname, donor.hs)
            else:
                setattr(rec, fname, lit.ev(vspec))
            exc = None
        except Exception as e:  # noqa: BLE001
            exc = e
        if exc is not None:
            outs.append("cross:rejected")
            if obs(rec) != before:
                viol.append(("C05:failed-assignment-changed-record:%s<-%s" % (other, home), case, {"field": fname}))
            continue
        outs.append("cross:accepted")
        if fname != "hs" and expect == R:
            viol.append(("C05:not-rejected:%s:typed-%s-value" % (other, home), case, {"field": fname, "stored": repr(getattr(rec, fname))[:80]}))
        slot_invariant(rec, "typed-%s-value" % home, case, viol)
        err, data = serialisable(rec)
        if err is not None:
            viol.append(("C05:accepted-but-unserialisable:%s<-%s:%s" % (other, home, type(err).__name__), case, {"field": fname, "error": repr(err)[:200]}))
    seen = set()
    return {"ev": 4, "h": h, "nt": True, "out": sorted(set(outs)), "viol": [v for v in viol if not (v[0] in seen or seen.add(v[0]))]}


ALIAS_APPEND = {"string": "'seen'", "bytes": "b'seen'", "varint": "7", "uint16": "7", "uint32": "7", "boolean": "True", "float": "1.5", "datetime": "dt(2020,1,1,tz=UTC)",
                "digest": "('d41d8cd98f00b204e9800998ecf8427e', None, None)", "path": "'/p'", "net.ipaddress": "'1.2.3.4'", "net.ipnetwork": "'10.0.0.0/8'",
                "net.tcp.Port": "80", "uri": "'http://h/p'"}


def run_alias(case):
    """An unset field holds None or the type's EMPTY default - also after the object another record holds in that field was
    filled in place (tags.append(..), digest.md5 = ..): n records are made first, one of them is mutated through the objects its
    unset fields hold, and every other record - made before or after, through every door - must still be empty there."""
    import io

    from flow.record import RecordStreamReader, RecordStreamWriter

    h = jhash(case)
    t, n = case["t"], case["n"]
    fields = [["string", "name"], [t + "[]", "xs"]] if t != "digest" else [["string", "name"], ["digest", "xs"], ["digest[]", "more"]]
    desc = recs.descriptor("f/alias", fields)
    gen = lit.ev("dt(2020,1,1,tz=UTC)")
    viol = []

    def empty(r, door):
        for f in desc.get_field_tuples()[1:]:
            v = getattr(r, f[1])
            if f[0] == "digest":
                ok = v is None or (v.md5 is None and v.sha1 is None and v.sha256 is None)
            else:
                ok = v is None or (isinstance(v, list) and len(v) == 0)
            if not ok:
                viol.append(("C05:unset-field-not-empty-after-in-place-update-of-another-record:%s:%s" % (f[0], door), case, {"door": door, "field": f[1], "holds": repr(v)[:100]}))

    before = [desc.recordType(name="r%d" % i, _generated=gen) for i in range(n)]
    buf = io.BytesIO()
    w = RecordStreamWriter(buf)
    w.write(before[-1])
    w.flush()
    victim = before[case["which"] % n]
    for f in desc.get_field_tuples()[1:]:
        v = getattr(victim, f[1])
        if v is None:
            continue
        if f[0] == "digest":
            v.md5 = "d41d8cd98f00b204e9800998ecf8427e"
        else:
            for _ in range(case.get("appends", 1)):
                v.append(lit.ev(ALIAS_APPEND[t]))
    for i, r in enumerate(before):
        if r is not victim:
            empty(r, "made-before")
    empty(desc.recordType(name="after", _generated=gen), "construct")
    empty(desc.recordType(_generated=gen), "construct-bare")
    empty(desc.init_from_dict({"name": "d", "_generated": gen}), "init_from_dict")
    empty(before[(case["which"] + 1) % n]._replace(name="x") if n > 1 else desc.recordType(_generated=gen), "replace")
    for r in RecordStreamReader(io.BytesIO(buf.getvalue())):
        empty(r, "decoded")
        # and the other way round: filling a decoded record in place
        for f in desc.get_field_tuples()[1:]:
            v = getattr(r, f[1])
            if isinstance(v, list):
                v.append(lit.ev(ALIAS_APPEND[t]))
    empty(desc.recordType(name="after-decoded", _generated=gen), "construct-after-decoded-was-filled")
    seen = set()
    v2 = [v for v in viol if not (v[0] in seen or seen.add(v[0]))]
    return {"ev": 6 + n, "h": h, "nt": True, "out": ["alias:%s" % t], "viol": v2, "states": [], "count": {}}


def run_case(case):
    from flow.record import GroupedRecord

    if case.get("env") and not envleg.in_env(case):
        return envleg.run_single("checks.c05", case)
    if case.get("alias"):
        return run_alias(case)
    if case.get("cross"):
        return run_cross(case)
    if case.get("twins"):
        return run_twins(case)
    if case.get("meta"):
        return run_meta(case)
    if "wire" in case:
        return run_wire(case)
    h = jhash(case)
    t = case["t"]
    viol = []
    states = []
    outs = []
    haslist = t in LIST_TYPES
    fields = [[t, "x"]] + ([[t + "[]", "xs"]] if haslist else [])
    if case.get("keyword"):
        fields = [[t, "from"], [t, "x"]]
    desc = recs.descriptor("f/" + ("kw" if case.get("keyword") else "rec"), fields)
    gen = lit.ev("dt(2020,1,1,tz=UTC)")
    try:
        rec = desc.recordType(_generated=gen)
    except Exception as e:  # noqa: BLE001
        return {"ev": 1, "h": h, "nt": False, "out": "ctor-raises", "viol": [("C05:empty-construct-raises:%s" % t, case, {"error": repr(e)[:200]})]}
    slot_invariant(rec, "constructed-empty", case, viol)
    accepted_any = False
    for step, (ev, expect) in enumerate(case["events"]):
        before = obs(rec)
        exc = apply_event(rec, ev)
        after = obs(rec)
        label = "%s:%s" % (t, ev[0] if ev[0] != "from" else "x")
        if exc is not None:
            outs.append("rejected")
            if expect == V:
                viol.append(("C05:valid-value-rejected:%s:%s" % (label, type(exc).__name__), case, {"step": step, "event": ev, "error": repr(exc)[:120]}))
            if after != before:
                viol.append(("C05:failed-assignment-changed-record:%s" % label, case, {"step": step, "event": ev, "error": repr(exc)[:120]}))
        else:
            outs.append("accepted")
            accepted_any = True
            if expect == R:
                viol.append(("C05:not-rejected:%s:%s" % (label, "after-history" if step else "first"), case, {"step": step, "event": ev, "stored": repr(getattr(rec, ev[0] if ev[0] != "from" else "from"))[:80]}))
            slot_invariant(rec, "assigned", case, viol)
            conversion_invariant(rec, t, "from" if ev[0] == "from" else ev[0], ev[1], case, viol)
            err, data = serialisable(rec)
            if err is not None:
                viol.append(("C05:accepted-but-unserialisable:%s:%s%s" % (t, type(err).__name__, text_class(rec)), case, {"event": ev, "error": repr(err)[:200]}))
            else:
                decode_probes(rec, data, t, case, viol)
        states.append(jhash([t, after]))
        # probes: the same value through the other doors must agree on accept/reject and keep the invariant
        val_spec = ev[1]
        fname = "from" if ev[0] == "from" else ev[0]
        for door in ("construct", "replace", "init_from_dict", "grouped"):
            src_before = obs(rec)
            try:
                v = lit.ev(val_spec)
                if door == "construct":
                    out = desc.recordType(**{fname: v, "_generated": gen})
                elif door == "replace":
                    out = rec._replace(**{fname: v})
                elif door == "init_from_dict":
                    out = desc.init_from_dict({fname: v, "_generated": gen})
                else:
                    other = recs.descriptor("f/other", [["string", "o"]])(o="o", _generated=gen)
                    inner = desc.recordType(_generated=gen)
                    g = GroupedRecord("f/g", [other, inner])
                    setattr(g, fname, v)
                    out = inner
                slot_invariant(out, door, case, viol)
                if expect == R:
                    viol.append(("C05:not-rejected:%s:%s" % (label, door), case, {"event": ev}))
            except Exception:  # noqa: BLE001
                if exc is None and expect == V:
                    viol.append(("C05:doors-disagree:%s:%s-rejects-what-assignment-accepts" % (label, door), case, {"event": ev}))
            if obs(rec) != src_before:
                viol.append(("C05:%s-modified-source:%s" % (door, label), case, {"event": ev}))
    seen = set()
    v2 = [v for v in viol if not (v[0] in seen or seen.add(v[0]))]
    return {"ev": max(1, len(case["events"])), "h": h, "nt": accepted_any, "out": ["%s:%s" % (t, o) for o in sorted(set(outs))] or [t + ":empty"], "viol": v2,
            "states": states, "count": {"assignment_events": len(case["events"])}, "sample": case if int(h, 16) % 1499 == 0 else None}


def events_for(t, keyword=False):
    evs = []
    for spec, exp in CAND[t]:
        evs.append((("from" if keyword else "x", spec), exp))
    if t in LIST_TYPES and not keyword:
        for spec, exp in CAND[t]:
            if spec == "None":
                evs.append((("xs", "None"), V))
                continue
            evs.append((("xs", "[%s]" % spec), exp))
            if t in TYPED_SEED:
                evs.append((("xs", "[%s, %s]" % (TYPED_SEED[t], spec)), exp))
                evs.append((("xs", "(%s, %s)" % (TYPED_SEED[t], spec)), exp))
                evs.append((("xs", "[%s, %s, %s]" % (TYPED_SEED[t], spec, TYPED_SEED[t])), exp))
                evs.append((("xs", "[%s, %s]" % (spec, TYPED_SEED[t])), exp))
    return evs


def cases(tier, seed):
    depth = 3 if tier == "thorough" else 2
    for t in CAND:
        evs = events_for(t)
        for k in range(1, depth + 1):
            if k == 3:
                evs_k = [e for e in evs if e[1] != W][:10]
            else:
                evs_k = evs
            for hist in itertools.product(evs_k, repeat=k):
                yield {"t": t, "events": [[list(e[0]), e[1]] for e in hist]}
        # keyword-named field: the generated class uses the *args/**kwargs template
        for hist in itertools.product(events_for(t, True), repeat=1):
            yield {"t": t, "keyword": True, "events": [[list(e[0]), e[1]] for e in hist]}
    # size classes of the converting types: values just below / at / above 4 KiB .. 1 MiB, text that ends (and crosses the block
    # edge) inside a multi-byte sequence, stray bytes at the edge - depth-1 histories through the scalar and the list field
    edges = [4096, 8192, 65536, 131072] + ([16384, 32768, 1 << 20] if tier == "thorough" else [])
    for b in edges:
        big = [("string", "S(b'a', %d) + b'\\xe2\\x82'" % b), ("string", "S(b'a', %d) + b'\\xe2\\x82\\xac' + b'\\xc3'" % (b - 1)), ("string", "S(b'a', %d) + b'\\xff'" % (b + 1)),
               ("string", "S(b'\\xe2\\x82\\xac', %d) + b'\\xe2'" % (b // 3 + 1)), ("string", "S('\\u20ac', %d) + '\\udcff'" % b), ("wstring", "S(b'a', %d) + b'\\xf0\\x9f\\x98'" % b),
               ("uri", "b'http://h/' + S(b'p', %d) + b'\\xe2\\x82'" % b), ("bytes", "S(b'\\x00', %d)" % (b + 1)), ("path", "'/' + S('p', %d)" % b)]  # (integers: CPython refuses to print more than 4300 digits; 2**4096 is in the alphabets)
        for t, spec in big:
            yield {"t": t, "events": [[["x", spec], V]]}
            if t in LIST_TYPES:
                yield {"t": t, "events": [[["xs", "[%s]" % spec], V]]}
                yield {"t": t, "events": [[["xs", "[%s, %s]" % (TYPED_SEED[t], spec)], V]]}
    # unset fields next to records whose unset field was filled in place
    for t in LIST_TYPES + ["digest"]:
        for n in (1, 2, 5):
            for which in range(min(n, 2)):
                yield {"t": t, "alias": True, "n": n, "which": which, "appends": 1 if n < 5 else 3, "events": []}
    # nested record fields: pass-through type, candidates are records and None
    yield {"t": "record", "events": [[["x", "None"], V]]}
    # element classes that share a Python class name (tcp.port / udp.port; ipaddress / IPAddress): both list forms in one process
    for pair in (["net.tcp.Port", "net.udp.Port"], ["net.udp.Port", "net.tcp.Port"], ["net.ipaddress", "net.IPAddress"], ["string", "wstring"], ["varint", "filesize"]):
        yield {"t": pair[0], "twins": pair, "events": []}
    # typed values of one type offered to lists / fields of every other type, after they were stored in their own list
    for spec, rej in FOREIGN:
        home = FOREIGN_HOME[spec.split("(")[0]]
        for other in LIST_TYPES:
            if other != home:
                yield {"t": other, "cross": [spec, home, other, rej.get(other, W)], "events": []}
    for fname, specs in META_VALUES.items():
        for spec in specs:
            for kw in (False, True):
                yield {"t": "meta", "meta": [fname, spec], "keyword": kw, "events": []}
    # hostile wire values: a stream / JSON line from elsewhere carrying what the type cannot represent
    for t, wire in WIRE:
        yield {"t": t, "wire": wire, "events": []}


ENVS = [{"FLOW_RECORD_TZ": "NONE"}, {"FLOW_RECORD_TZ": "Europe/Amsterdam"}, {"FLOW_RECORD_IGNORE": "_generated,x,xs"},
        {"FLOW_RECORD_TZ": "none", "FLOW_RECORD_IGNORE": "x"}, {"FLOW_RECORD_TZ": "America/St_Johns"},
        {"TZ": "Europe/Amsterdam"}, {"TZ": "XXX-5"}]  # (the process's local zone must not enter: naive means UTC)


def main(tier, seed, workers=None):
    run = Run(PROP, "model_checking", tier, seed, RULE)
    run.assumptions = ["for wrong-kind candidates only the invariant is demanded (reject or convert)", "the must-reject table lists only what the statement names"]

    def normalise(case):
        case = dict(case)
        case["events"] = [(tuple(e[0]), e[1]) for e in case["events"]]
        return case

    explore(run, cases(tier, seed), lambda c: run_case(normalise(c)), workers, chunk=64, reversed_pass=(tier == "thorough"))
    # the library under its two import-time environment settings: all depth-1 histories, the cross and the wire cases
    shallow = [c for c in cases("quick", seed) if len(c["events"]) <= 1]
    for env in ENVS if tier == "thorough" else ENVS[:3]:
        envleg.explore_env(run, "checks.c05", shallow, env, workers)
    run.states = max(1, len(run.state_hashes))
    run.transitions = run.extra.get("assignment_events", 0)
    run.traces = run.transitions
    return run.finish(lambda case: [v[0] for v in run_case(normalise(case))["viol"]])
