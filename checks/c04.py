"""C04 — a damaged stream yields an intact prefix, never altered records (E3: every cut, every failing write)."""
from __future__ import annotations

import gzip
import io
import os
import zlib

from mc import recs, refcodec
from mc.faults import DuckFile, FaultyFile, drain
from mc.obs import obs_list
from mc.recs import rs
from mc.report import Run, jhash
from mc.space import explore
from mc.streamspace import A, A2, BIG, C, E, G, G_X, N_A, N_X

PROP = "C04"
RULE = ("streams {small, nested, long, empty, zero} raw and gzip x EVERY byte cut 0..len x 3 read paths (bigframe, one 70 kB frame: every cut of the gzip image, raw cuts near frame boundaries + every 251st); plus the real writers "
        "(RecordStreamWriter, StreamWriter adapter, RecordStreamWriter over GzipFile) on a logging device that fails (raise) or "
        "short-writes at EVERY write-call index x k accepted bytes x {crash, close afterwards}; non-trivial = image differs from "
        "the complete stream; distinct = distinct (stream, cut/fault) literal")

TIER = ["quick"]


def long_specs(n):
    out = []
    for i in range(n):
        if i % 3 == 2:
            out.append(rs("l/b", [["bytes", "raw"], ["varint", "i"]], ["S(b'\\xab', %d)" % (i * 7), str(i)]))
        else:
            out.append(rs("l/a", [["string", "s"], ["varint", "i"], ["datetime", "ts"]],
                          ["S('x', %d)" % (i * 5), str(i), "dt(2020,1,%d,tz=off(1))" % (i % 28 + 1)]))
    return out


def stream_specs(tier):
    return {
        "small": [A, C, A],
        "nested": [N_A, G, BIG, N_X, G_X, C, E, A2],
        "long": long_specs(200 if tier == "thorough" else 20),
        "empty": [],
        # one frame larger than 64 KiB and larger than the whole compressed file
        "bigframe": [A, rs("l/huge", [["string", "s"], ["varint", "i"]], ["S('x', 70000)", "7"]), C],
        # one frame beyond 16 MiB (string, bytes) and one list of 140 000 elements: size classes of a decoder's limits
        "hugeframe": [A, rs("l/huge", [["bytes", "raw"], ["varint", "i"]], ["S(b'\\xab', 17 * 1024 * 1024)", "7"]), rs("l/many", [["varint[]", "xs"]], ["list(range(140000))"]), C],
    }


_STREAMS = {}


def build_stream(name):
    """-> dict(records, obs, raw bytes, frame table [(end, is_record)], gz bytes)"""
    from flow.record import RecordStreamWriter

    if name in _STREAMS:
        return _STREAMS[name]
    if name == "zero":
        s = {"specs": [], "obs": [], "raw": b"", "frames": [], "gz": gzip.compress(b"", mtime=0)}
        _STREAMS[name] = s
        return s
    specs = stream_specs(TIER[0])[name]
    records = [recs.build_record(r) for r in specs]
    buf = io.BytesIO()
    w = RecordStreamWriter(buf)
    for r in records:
        w.write(r)
    w.flush()
    raw = buf.getvalue()
    try:
        frames = refcodec.split_frames(raw)
        _, dec = refcodec.decode_stream(raw)
    except refcodec.FormatError as e:
        # the fault-free stream itself is not a record stream: nothing can be cut; reported once per stream
        s = {"broken": str(e)[:200], "specs": specs}
        _STREAMS[name] = s
        return s
    table = [(end, ev[0] in ("REC", "GROUPED")) for (_, end, _), ev in zip(frames, dec.events)]
    g = io.BytesIO()
    with gzip.GzipFile(fileobj=g, mode="wb", mtime=0) as f:
        f.write(raw)
    s = {"specs": specs, "obs": obs_list(records), "raw": raw, "frames": table, "gz": g.getvalue()}
    _STREAMS[name] = s
    return s


def complete_records(s, nbytes):
    return sum(1 for end, isrec in s["frames"] if isrec and end <= nbytes)


def is_boundary(s, nbytes):
    return any(end == nbytes for end, _ in s["frames"])


def header_len(s):
    return s["frames"][0][0] if s["frames"] else 19


def gz_plain_len(data):
    d = zlib.decompressobj(31)
    try:
        return len(d.decompress(data))
    except zlib.error:
        return 0


_n = [0]


def read_image(image, path_kind, suffix=""):
    """-> (records, exception|None, refused_at_open)"""
    from flow.record import RecordReader, RecordStreamReader

    try:
        if path_kind == "lowlevel":
            fp = io.BytesIO(image)
            if suffix == ".gz":
                fp = gzip.GzipFile(fileobj=fp, mode="rb")
            rd = RecordStreamReader(fp)
        elif path_kind == "fileobj":
            rd = RecordReader(fileobj=io.BytesIO(image))
        else:
            _n[0] += 1
            p = os.path.join(os.environ["VERIF_SCRATCH"], "c04-%d-%d.records%s" % (os.getpid(), _n[0], suffix))
            with open(p, "wb") as f:
                f.write(image)
            try:
                rd = RecordReader(p)
            finally:
                os.unlink(p)
    except Exception as e:  # noqa: BLE001
        return [], e, True
    got, exc = drain(rd)
    try:
        rd.close()
    except Exception:  # noqa: BLE001
        pass
    return got, exc, False


def judge(s, image, plain_len, case, label, must_be_clean, completeness=True, min_complete=None):
    """Shared oracle. plain_len = number of plaintext stream bytes available in the image."""
    viol = []
    outs = []
    suffix = ".gz" if case.get("gz") else ""
    k = complete_records(s, plain_len)
    for pk in ("lowlevel", "fileobj", "path"):
        got, exc, refused = read_image(image, pk, suffix)
        ogot = obs_list(got)
        outs.append("%d:%s" % (len(got) - k, type(exc).__name__ if exc else "end"))
        # safety: what is yielded is a prefix of what was written, unaltered
        if ogot != s["obs"][: len(ogot)]:
            d = recs.list_diff(s["obs"][: len(ogot)], ogot) or (-1, "?", "?", "extra-records")
            viol.append(("C04:%s:%s:altered-or-unwritten:%s" % (label, pk, d[3]), case,
                         {"yielded": len(ogot), "complete": k, "first_diff": d[:3], "exc": repr(exc)[:200]}))
            continue
        if plain_len < header_len(s):
            if got:
                viol.append(("C04:%s:%s:record-from-headerless" % (label, pk), case, {"yielded": len(got)}))
            continue
        if completeness and len(got) != k:
            kind = "skipped-complete" if len(got) < k else "yielded-incomplete"
            viol.append(("C04:%s:%s:%s" % (label, pk, kind), case, {"yielded": len(got), "complete": k, "exc": repr(exc)[:200]}))
        if min_complete is not None and len(got) < min_complete:
            viol.append(("C04:%s:%s:skipped-complete" % (label, pk), case, {"yielded": len(got), "complete_before_tear": min_complete}))
        if must_be_clean and exc is not None:
            viol.append(("C04:%s:%s:boundary-raises-%s" % (label, pk, type(exc).__name__), case, {"exc": repr(exc)[:300], "yielded": len(got)}))
    return viol, outs


def run_case(case):
    h = jhash(case)
    s = build_stream(case["stream"])
    if "broken" in s:
        return {"ev": 1, "h": h, "nt": True, "out": "baseline-broken",
                "viol": [("C04:baseline:%s:fault-free-stream-not-decodable" % case["stream"], {"kind": case["kind"], "stream": case["stream"]}, {"error": s["broken"]})]}
    if case["kind"] == "cut":
        c = case["c"]
        if case.get("gz"):
            image = s["gz"][:c]
            plain = gz_plain_len(image)
            clean = c == len(s["gz"]) and len(s["raw"]) >= 19
            viol, outs = judge(s, image, plain, case, "cut.gz", clean)
            nt = c < len(s["gz"])
        else:
            image = s["raw"][:c]
            clean = is_boundary(s, c) and c >= header_len(s)
            viol, outs = judge(s, image, c, case, "cut", clean)
            nt = c < len(s["raw"])
        return {"ev": 3, "h": h, "nt": nt, "out": outs, "viol": viol,
                "sample": case if int(h, 16) % 499 == 0 else None, "count": {"boundary_cuts_clean": 1 if clean else 0}}
    return run_wfault(case, s, h)


def run_carryon(case, s, h):
    """One write() call fails with NOTHING written (no space, interrupted) exactly at the start of a record frame; the caller gets the
    error for that record and carries on with the same writer. On disk every frame is complete: the records whose write() returned
    are all there, in order, and nothing else."""
    from flow.record import RecordStreamWriter
    from flow.record.adapter.stream import StreamWriter

    dev = FaultyFile(case["i"], 0, "raise")
    records = [recs.build_record(r) for r in s["specs"]]
    w = RecordStreamWriter(dev) if case["writer"] == "low" else StreamWriter(dev)
    acked = []
    failed = []
    for idx, r in enumerate(records):
        try:
            w.write(r)
            acked.append(idx)
        except OSError:
            failed.append(idx)
    try:
        w.flush()
    except OSError:
        pass
    image = dev.getvalue()
    try:
        w.fp = None
        if hasattr(w, "stream"):
            w.stream = None
    except Exception:  # noqa: BLE001
        pass
    viol = []
    outs = []
    want = [s["obs"][i] for i in acked]
    label = "wfault.%s.raise-then-carry-on" % case["writer"]
    if len(failed) != 1:
        outs.append("fault-not-on-a-record-write")
    else:
        for pk in ("lowlevel", "fileobj", "path"):
            got, exc, refused = read_image(image, pk, "")
            ogot = obs_list(got)
            if ogot != want:
                d = recs.list_diff(want, ogot)
                viol.append(("C04:%s:%s:%s" % (label, pk, "acknowledged-records-unreadable" if len(ogot) < len(want) else "altered-or-unwritten"), case,
                             {"acknowledged": len(want), "read": len(ogot), "failed_record": failed[0], "exc": repr(exc)[:160], "first_diff": list(d[:3]) if d else None}))
            outs.append("carryon:%s" % ("ok" if ogot == want else "bad"))
    return {"ev": 3, "h": h, "nt": True, "out": outs, "viol": viol, "count": {"write_faults_injected": 1}}


def run_wfault(case, s, h):
    from flow.record import RecordStreamWriter
    from flow.record.adapter.stream import StreamWriter

    if case.get("after") == "carry-on":
        return run_carryon(case, s, h)

    dev = (DuckFile if case.get("dev") == "duck" else FaultyFile)(case["i"], case["k"], case["mode"])
    records = [recs.build_record(r) for r in s["specs"]]
    gzf = None
    w = None
    err = None
    acked = 0
    try:
        if case["writer"] == "low":
            w = RecordStreamWriter(dev)
        elif case["writer"] == "adapter":
            w = StreamWriter(dev)
        else:
            gzf = gzip.GzipFile(fileobj=dev, mode="wb", mtime=0)
            w = RecordStreamWriter(gzf)
        for r in records:
            w.write(r)
            acked += 1
        w.flush()
    except OSError as e:
        err = e
    if case["after"] == "close" or (err is None):
        for obj in (w, gzf):
            if obj is not None:
                try:
                    obj.close()
                except Exception:  # noqa: BLE001
                    pass
    # detach so that __del__ writes nothing further into the image we are about to read
    image = dev.getvalue()
    try:
        if w is not None:
            w.fp = None
            if hasattr(w, "stream"):
                w.stream = None
    except Exception:  # noqa: BLE001
        pass
    viol = []
    label = "wfault.%s.%s" % (case["writer"], case["mode"])
    if case["writer"] == "gzip":
        c2 = dict(case, gz=True)
        plain = gz_plain_len(image)
        clean = (not dev.failed) and err is None
        v, outs = judge(s, image, plain, c2, label, clean, completeness=True)
        viol += v
    elif case["mode"] in ("chunked", "none"):
        # every write was a legal (possibly short) write and was acknowledged: the image must be the complete stream
        if err is not None:
            viol.append(("C04:%s:raises-on-legal-short-writes:%s" % (label, type(err).__name__), case, {"error": repr(err)[:200]}))
            outs = ["raise"]
        else:
            if image != s["raw"]:
                viol.append(("C04:%s:acknowledged-but-image-differs" % label, case, {"image_len": len(image), "expected_len": len(s["raw"])}))
            v, outs = judge(s, image, len(s["raw"]), case, label, True, completeness=True)
            viol += v
    elif case["mode"] == "raise":
        if not s["raw"].startswith(image) and dev.failed:
            viol.append(("C04:%s:image-not-a-prefix" % label, case, {"image_len": len(image)}))
        clean = is_boundary(s, len(image)) and len(image) >= header_len(s)
        v, outs = judge(s, image, len(image), case, label, clean)
        viol += v
    else:
        # short write, writer carries on: only safety, and completeness up to the tear
        tear = sum(dev.calls[: case["i"]]) if dev.failed else len(image)
        intact = image == s["raw"]
        if err is None and acked == len(records):
            # every write() was acknowledged and the device took whatever it was offered again: all frames are complete
            if not intact:
                viol.append(("C04:%s:acknowledged-but-image-differs" % label, case, {"image_len": len(image), "expected_len": len(s["raw"])}))
            v, outs = judge(s, image, len(s["raw"]), case, label, True, completeness=True)
        else:
            v, outs = judge(s, image, len(image), case, label, intact and is_boundary(s, len(image)), completeness=intact,
                            min_complete=complete_records(s, tear) if len(image) >= header_len(s) else None)
        viol += v
    # an acknowledged write that the device accepted completely must be readable (acked counts only when no error was raised)
    return {"ev": 3, "h": h, "nt": dev.failed, "out": outs, "viol": viol, "sample": case if int(h, 16) % 499 == 0 else None,
            "count": {"write_faults_injected": 1 if dev.failed else 0}}


def count_calls(name, writer):
    from flow.record import RecordStreamWriter
    from flow.record.adapter.stream import StreamWriter

    s = build_stream(name)
    dev = FaultyFile()
    records = [recs.build_record(r) for r in s["specs"]]
    if writer == "low":
        w = RecordStreamWriter(dev)
    elif writer == "adapter":
        w = StreamWriter(dev)
    else:
        g = gzip.GzipFile(fileobj=dev, mode="wb", mtime=0)
        w = RecordStreamWriter(g)
    for r in records:
        w.write(r)
    w.flush()
    if writer == "gzip":
        g.close()
    calls = list(dev.calls)
    w.fp = None
    if hasattr(w, "stream"):
        w.stream = None
    return calls


def cases(tier):
    broken = [n for n in ("small", "nested", "long", "empty", "zero", "bigframe", "hugeframe") if "broken" in build_stream(n)]
    if broken:
        # the writer does not produce a record stream even without a fault: one case per such stream carries the report
        for n in broken:
            yield {"kind": "cut", "stream": n, "c": 0}
        return
    names = ["small", "nested", "long", "empty", "zero"]
    # bigframe: every cut of the compressed image; of the raw image every cut within 48 bytes of a frame boundary and every
    # 251st position in between (the interior of one 70000-character payload)
    s = build_stream("bigframe")
    ends = [0] + [e for e, _ in s["frames"]]
    near = {c for e in ends for c in range(max(0, e - 48), min(len(s["raw"]), e + 48) + 1)} | set(range(0, len(s["raw"]) + 1, 251))
    for c in sorted(near):
        yield {"kind": "cut", "stream": "bigframe", "c": c}
    for c in range(len(s["gz"]) + 1):
        yield {"kind": "cut", "stream": "bigframe", "gz": True, "c": c}
    s = build_stream("hugeframe")
    ends = [0] + [e for e, _ in s["frames"]]
    for c in sorted({e for e in ends if e > 0} | {ends[-1] - 1, len(s["raw"]) // 2}):
        yield {"kind": "cut", "stream": "hugeframe", "c": c}
    yield {"kind": "cut", "stream": "hugeframe", "gz": True, "c": len(s["gz"])}
    for name in names:
        s = build_stream(name)
        for c in range(len(s["raw"]) + 1):
            yield {"kind": "cut", "stream": name, "c": c}
        for c in range(len(s["gz"]) + 1):
            yield {"kind": "cut", "stream": name, "gz": True, "c": c}
    for name in ["small", "nested", "long", "empty", "bigframe"]:
        for writer in ("low", "adapter", "gzip"):
            if name == "bigframe" and writer == "gzip":
                continue
            calls = count_calls(name, writer)
            for i, ln in enumerate(calls):
                ks = sorted(set(range(ln)) if tier == "thorough" and ln <= 64 else
                            {0, 1, ln // 2, max(0, ln - 1), max(0, ln - 2), max(0, ln - 3), max(0, ln - 4), max(0, ln - 5)} & set(range(ln)) | {0})
                for k in ks:
                    for mode in ("raise", "short"):
                        if writer == "gzip" and mode == "short":
                            continue  # GzipFile over a raw device: io semantics undefined for short raw writes
                        if writer == "low" and mode == "short":
                            yield {"kind": "wfault", "stream": name, "writer": writer, "i": i, "k": k, "mode": mode, "after": "close", "dev": "duck"}
                        for after in ("crash", "close"):
                            if writer == "gzip" and after == "close":
                                # closing a GzipFile whose sink failed re-runs its internal buffer through the compressor (CPython's
                                # gzip module); what that leaves on the device is not the library's doing
                                continue
                            yield {"kind": "wfault", "stream": name, "writer": writer, "i": i, "k": k, "mode": mode, "after": after}
            if writer != "gzip" and name != "empty":
                # a failed call that took nothing, at the first call of every RECORD frame; the caller carries on
                st = build_stream(name)
                starts = set()
                prev = 0
                for end, isrec in st["frames"]:
                    if isrec:
                        starts.add(prev)
                    prev = end
                off = 0
                for i, ln in enumerate(calls):
                    # (the call that CONTAINS the first byte of a record frame: a writer may hand several frames to one call)
                    if any(off <= st_ < off + ln for st_ in starts):
                        yield {"kind": "wfault", "stream": name, "writer": writer, "i": i, "k": 0, "mode": "raise", "after": "carry-on"}
                    off += ln
            if writer != "gzip":
                if writer == "low":  # (the adapter takes io objects only)
                    yield {"kind": "wfault", "stream": name, "writer": writer, "i": 0, "k": 0, "mode": "none", "after": "close", "dev": "duck"}
                yield {"kind": "wfault", "stream": name, "writer": writer, "i": 0, "k": 0, "mode": "none", "after": "close"}
                for k in (1, 2, 3, 5, 7, 64) + ((4096, 8192, 30000, 65535, 65536) if name in ("bigframe", "long") else ()):
                    yield {"kind": "wfault", "stream": name, "writer": writer, "i": 0, "k": k, "mode": "chunked", "after": "close"}
                    if writer == "low":
                        yield {"kind": "wfault", "stream": name, "writer": writer, "i": 0, "k": k, "mode": "chunked", "after": "close", "dev": "duck"}
            # fault-free baseline (deviation bound 0)
            yield {"kind": "wfault", "stream": name, "writer": writer, "i": None, "k": 0, "mode": "raise", "after": "close"}


def main(tier, seed, workers=None):
    TIER[0] = tier
    run = Run(PROP, "fault_enumeration", tier, seed, RULE)
    run.assumptions = ["gzip completeness is judged against zlib.decompressobj on the truncated bytes",
                       "one fault per execution (deviation bound 1); after a raised fault the caller stops or closes (GzipFile sinks: stops only - what gzip writes when it is closed after its sink failed is CPython's)",
                       "raw cuts of the 70 kB frame are taken near frame boundaries and at every 251st byte of the payload interior, not at every byte"]
    for n in ("small", "nested", "long", "empty", "zero", "bigframe", "hugeframe"):
        build_stream(n)
    explore(run, cases(tier), run_case, workers)
    run.extra["streams"] = {n: {"raw_len": len(s["raw"]), "gz_len": len(s["gz"]), "frames": len(s["frames"])} for n, s in _STREAMS.items() if "broken" not in s}
    return run.finish(lambda case: [v[0] for v in run_case(case)["viol"]])
