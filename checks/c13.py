"""C13 — timestamps are timezone-aware and keep their instant everywhere (one worker process per display/OS time-zone setting)."""
from __future__ import annotations

import datetime as _d
import hashlib
import io
import json
import os
import subprocess
import sys

from mc.report import Run, jhash

PROP = "C13"
RULE = ("instants (year 1, pre-1970, epoch, Avro's 2**32 us guard, leap day, 2038, DST gap and folds, year 9999, seeded extras) x tzinfo "
        "kinds (naive, UTC, ZoneInfo UTC, fixed offsets incl. seconds, 3 IANA zones with fold 0/1) x input forms (object, ISO text T / "
        "space / Z / +HHMM, bytes, epoch int/float) x storage formats (stream, JSON, SQLite, Avro), executed in 18 worker processes "
        "(FLOW_RECORD_TZ x TZ); instants are computed independently from the input's own utcoffset(); bytes written and values read "
        "are compared across all environments; plus all values through ONE writer per format in both orders, and every ordered pair of values sharing a ZoneInfo object through one stream writer / JSON packer. non-trivial = value accepted by the field type")

INSTANTS = [
    (1, 1, 1, 0, 0, 0, 0), (1, 1, 1, 23, 59, 59, 999999), (1969, 12, 31, 23, 59, 59, 999999), (1970, 1, 1, 0, 0, 0, 0), (1970, 1, 1, 0, 0, 0, 1),
    (1970, 1, 1, 1, 11, 35, 0), (2000, 2, 29, 12, 0, 0, 0), (2038, 1, 19, 3, 14, 8, 0), (2020, 3, 29, 2, 30, 0, 0), (2020, 10, 25, 2, 30, 0, 0),
    (2020, 11, 1, 1, 30, 0, 0), (2021, 4, 4, 1, 45, 0, 0), (9999, 12, 31, 23, 59, 59, 999999), (2022, 6, 15, 12, 30, 45, 123456),
    (1969, 12, 31, 23, 59, 58, 500000), (1950, 6, 1, 0, 0, 0, 250000), (1970, 1, 1, 0, 0, 1, 750000), (1901, 12, 13, 20, 45, 51, 500000),
    (2023, 11, 14, 0, 0, 0, 0), (1999, 12, 31, 0, 0, 0, 0),
    (2106, 2, 7, 6, 28, 15, 0), (2106, 2, 7, 6, 28, 16, 0), (3000, 1, 1, 0, 0, 0, 0), (9999, 12, 31, 23, 59, 59, 0), (1000, 1, 1, 0, 0, 0, 0),
]
ZONES = ["None", "UTC", "Z('UTC')", "off(5,30)", "off(5,neg=True)", "off(14)", "off(12,neg=True)", "off(1,2,3)", "off(0,19,32,neg=True)",
         "Z('Europe/Amsterdam')", "Z('America/New_York')", "Z('Australia/Lord_Howe')", "Z('Europe/London')"]
ENVS = [(tz, ostz) for tz in (None, "UTC", "NONE", "Europe/Amsterdam", "America/New_York", "Bogus/Zone") for ostz in (None, "UTC", "Asia/Tokyo")]


def value_specs(seed):
    import random

    specs = []
    inst = list(INSTANTS)
    rnd = random.Random("c13/%d" % seed)
    for _ in range(40 if os.environ.get("VERIF_TIER_C13") == "thorough" else 4):
        inst.append((rnd.randrange(2, 9999), rnd.randrange(1, 13), rnd.randrange(1, 29), rnd.randrange(24), rnd.randrange(60), rnd.randrange(60), rnd.randrange(10**6)))
    for i in inst:
        for z in ZONES:
            for fold in ((0, 1) if z.startswith("Z('") and z != "Z('UTC')" else (0,)):
                specs.append("dt(%s,tz=%s,fold=%d)" % (",".join(map(str, i)), z, fold))
    return specs


FORMS = ["obj", "isoT", "iso ", "isoZ", "iso+HHMM", "isobytes", "epoch-int", "epoch-float"]


def independent_instant(x):
    """UTC instant as (days, seconds, microseconds) from an aware datetime's own wall clock and utcoffset (honours fold)."""
    off = x.utcoffset()
    naive = _d.datetime(x.year, x.month, x.day, x.hour, x.minute, x.second, x.microsecond)
    delta = naive - _d.datetime(1, 1, 1) - off
    return (delta.days, delta.seconds, delta.microseconds)


def wall(x):
    return [x.year, x.month, x.day, x.hour, x.minute, x.second, x.microsecond]


def offs(x):
    o = x.utcoffset()
    return None if o is None else o.days * 86400 + o.seconds + o.microseconds / 1e6


def forms_of(src):
    """src: stdlib datetime (maybe naive) -> list of (form name, input value, expected instant, expected offset)"""
    aware = src if src.tzinfo is not None else src.replace(tzinfo=_d.timezone.utc)
    inst = independent_instant(aware)
    off = offs(aware)
    out = [("obj", src, inst, off)]
    whole_min = off is not None and off % 60 == 0
    iso = src.isoformat()
    out.append(("isoT", iso, inst, off))
    out.append(("iso ", src.isoformat(" "), inst, off))
    out.append(("isobytes", iso.encode(), inst, off))
    if src.tzinfo is not None and off == 0:
        out.append(("isoZ", src.replace(tzinfo=None).isoformat() + "Z", inst, 0.0))
    if src.tzinfo is not None and whole_min:
        sign = "-" if off < 0 else "+"
        a = abs(int(off))
        out.append(("iso+HHMM", src.replace(tzinfo=None).isoformat() + "%s%02d%02d" % (sign, a // 3600, a % 3600 // 60), inst, off))
    # ISO 8601 basic (compact) forms, which Python >= 3.11 parses: digits only, they must not be taken for a number
    if src.year >= 1000:
        if src.tzinfo is None or whole_min:
            basic = src.strftime("%Y%m%dT%H%M%S") + (".%06d" % src.microsecond if src.microsecond else "")
            if src.tzinfo is not None:
                sign = "-" if off < 0 else "+"
                a = abs(int(off))
                basic += "%s%02d%02d" % (sign, a // 3600, a % 3600 // 60)
            out.append(("iso-basic", basic, inst, off))
        if (src.hour, src.minute, src.second, src.microsecond) == (0, 0, 0, 0) and (src.tzinfo is None or off == 0):
            out.append(("iso-date-basic", src.strftime("%Y%m%d"), inst, 0.0))
            out.append(("iso-date", src.strftime("%Y-%m-%d"), inst, 0.0))
            out.append(("iso-date-basic-bytes", src.strftime("%Y%m%d").encode(), inst, 0.0))
    # epoch forms where the instant is a whole / representable number of seconds
    days, secs, us = inst
    epoch_days = (_d.date(1970, 1, 1) - _d.date(1, 1, 1)).days
    total = (days - epoch_days) * 86400 + secs
    if us == 0 and -62135596800 <= total <= 253402300799:
        out.append(("epoch-int", total, inst, 0.0))
        out.append(("epoch-float", float(total), inst, 0.0))
    if us in (250000, 500000, 750000) and abs(total) < 2**40:
        out.append(("epoch-float", total + us / 1e6, inst, 0.0))  # exactly representable binary fractions, also before 1970
    return out


def worker():
    """Runs inside one environment; prints one JSON line per value."""
    sys.path.insert(0, os.environ["VERIF_ROOT"])
    import warnings

    warnings.simplefilter("ignore")
    from mc import lit

    lit.install_flow()
    import fastavro
    import sqlite3

    from flow.record import JsonRecordPacker, RecordDescriptor, RecordReader, RecordStreamReader, RecordStreamWriter, RecordWriter
    from flow.record import fieldtypes as ft

    seed = int(os.environ.get("VERIF_SEED", "0") or 0)
    scratch = os.environ["VERIF_SCRATCH"]
    from flow.record import GroupedRecord

    desc = RecordDescriptor("c13/ts", [("datetime", "ts")])
    ldesc = RecordDescriptor("c13/tsl", [("datetime[]", "tsl")])
    odesc = RecordDescriptor("c13/o", [("string", "o")])
    wdesc = RecordDescriptor("c13/w", [("string", "note"), ("datetime", "when")])
    # a later version of c13/ts: the same type name, one more timestamp field
    desc2 = RecordDescriptor("c13/ts", [("datetime", "ts"), ("datetime", "ts_end")])
    tsof = lambda r: (r.ts_end if hasattr(r, "ts_end") else r.ts) if hasattr(r, "ts") else r.when  # noqa: E731
    gen = _d.datetime(2023, 4, 5, 6, 7, 8, 9, tzinfo=_d.timezone.utc)
    n = 0
    for spec in value_specs(seed):
        src = lit.ev(spec)
        for form, value, inst, off in forms_of(src):
            n += 1
            res = {"spec": spec, "form": form, "viol": [], "h": {}}
            try:
                x = ft.datetime(value)
            except Exception as e:  # noqa: BLE001
                res["rejected"] = type(e).__name__
                print(json.dumps(res))
                continue
            # (a) construction
            if x.tzinfo is None:
                res["viol"].append(["construct:naive-result", {}])
            else:
                if independent_instant(x) != inst:
                    res["viol"].append(["construct:instant-moved:%s" % ("fold" if src.fold else form), {"in": repr(value)[:60], "out": wall(x) + [offs(x)]}])
                if offs(x) != off:
                    res["viol"].append(["construct:offset-changed:%s" % form, {"want": off, "got": offs(x)}])
            try:
                rec = desc(ts=x, _generated=x)  # the metadata timestamp travels the same roads as a declared one
            except Exception as e:  # noqa: BLE001
                res["viol"].append(["record-construction-raises-%s" % type(e).__name__, {}])
                print(json.dumps(res))
                continue
            # the other doors a timestamp enters a record through: the raw input form given to the constructor, as element of a
            # datetime[] field, assigned afterwards, and assigned through a grouped record
            try:
                doors = {"ctor-raw": desc(ts=value, _generated=gen).ts, "list": ldesc(tsl=[value, value], _generated=gen).tsl[1],
                         "generated-ctor": desc(ts=None, _generated=value)._generated}
                r2 = desc(_generated=gen)
                r2.ts = value
                doors["assign"] = r2.ts
                g = GroupedRecord("c13/g", [odesc(o="o", _generated=gen), desc(_generated=gen)])
                g.ts = value
                doors["grouped-assign"] = g.ts
                import copy as _copy
                import pickle as _pickle

                doors["copy"] = _copy.copy(x)
                doors["deepcopy-of-record"] = _copy.deepcopy(desc(ts=x, _generated=gen)).ts
                doors["pickle"] = _pickle.loads(_pickle.dumps(x))
                doors["replace-copy"] = desc(ts=x, _generated=gen)._replace(_source="s").ts
                for door, got in doors.items():
                    if not isinstance(got, ft.datetime) or got.tzinfo is None:
                        res["viol"].append(["door:%s:not-an-aware-timestamp:%s" % (door, form), {"got": repr(got)[:60]}])
                    elif independent_instant(got) != independent_instant(x) or offs(got) != offs(x):
                        res["viol"].append(["door:%s:differs-from-direct-construction:%s" % (door, form), {"got": wall(got) + [offs(got)], "direct": wall(x) + [offs(x)]}])
            except Exception as e:  # noqa: BLE001
                res["viol"].append(["door:raises-%s:%s" % (type(e).__name__, form), {"error": repr(e)[:120]}])
            xi, xo = independent_instant(x) if x.tzinfo else None, offs(x)
            res["h"]["str"] = None
            try:
                back = _d.datetime.fromisoformat(str(x))
                if back.tzinfo is None:
                    back = back.replace(tzinfo=x.tzinfo)
                if independent_instant(back) != xi:
                    res["viol"].append(["str-denotes-other-instant", {"str": str(x)}])
            except Exception as e:  # noqa: BLE001
                res["viol"].append(["str-raises-%s" % type(e).__name__, {}])

            def judge(fmt, got, want_offset):
                if got is None or got.tzinfo is None:
                    res["viol"].append(["%s:naive-or-missing" % fmt, {"got": repr(got)}])
                    return
                if independent_instant(got) != xi:
                    res["viol"].append(["%s:instant-differs:%s" % (fmt, "seconds-offset" if xo and xo % 60 else "plain"), {"written": wall(x) + [xo], "read": wall(got) + [offs(got)]}])
                elif offs(got) != want_offset:
                    res["viol"].append(["%s:offset-differs" % fmt, {"written": xo, "read": offs(got)}])
                res["h"][fmt + ":read"] = hashlib.sha256(json.dumps(wall(got) + [offs(got)]).encode()).hexdigest()[:12]

            # stream
            try:
                buf = io.BytesIO()
                w = RecordStreamWriter(buf)
                w.write(rec)
                data = buf.getvalue()
                w.fp = None
                res["h"]["stream:bytes"] = hashlib.sha256(data).hexdigest()[:12]
                back = list(RecordStreamReader(io.BytesIO(data)))[0]
                judge("stream", back.ts, xo)
                judge("stream:_generated", back._generated, xo)
            except Exception as e:  # noqa: BLE001
                res["viol"].append(["stream:raises-%s" % type(e).__name__, {"error": repr(e)[:120]}])
            # json
            try:
                p = JsonRecordPacker()
                lines = []
                p.on_descriptor.add_handler(lambda dsc: lines.append(p.pack(dsc)))
                line = p.pack(rec)
                res["h"]["json:bytes"] = hashlib.sha256(line.encode()).hexdigest()[:12]
                q = JsonRecordPacker()
                for ln in lines:
                    q.unpack(ln)
                back = q.unpack(line)
                judge("json", back.ts, xo)
                judge("json:_generated", back._generated, xo)
            except Exception as e:  # noqa: BLE001
                res["viol"].append(["json:raises-%s" % type(e).__name__, {"error": repr(e)[:120]}])
            # sqlite
            path = os.path.join(scratch, "c13-%d.sqlite" % os.getpid())
            try:
                w = RecordWriter("sqlite://" + path)
                w.write(rec)
                w.flush()
                w.close()
                con = sqlite3.connect(path)
                cell = con.execute('SELECT ts, _generated FROM "c13/ts"').fetchone()
                con.close()
                res["h"]["sqlite:cell"] = hashlib.sha256(repr(cell[0]).encode()).hexdigest()[:12]
                res["h"]["sqlite:cell:_generated"] = hashlib.sha256(repr(cell[1]).encode()).hexdigest()[:12]
                rd = RecordReader("sqlite://" + path)
                back = list(rd)[0]
                judge("sqlite", back.ts, xo)
                judge("sqlite:_generated", back._generated, xo)
            except Exception as e:  # noqa: BLE001
                res["viol"].append(["sqlite:raises-%s" % type(e).__name__, {"error": repr(e)[:120]}])
            finally:
                if os.path.exists(path):
                    os.unlink(path)
            # avro
            path = os.path.join(scratch, "c13-%d.avro" % os.getpid())
            try:
                utc_ok = True
                try:
                    x.astimezone(_d.timezone.utc)
                except OverflowError:
                    utc_ok = False
                try:
                    w = RecordWriter(path)
                    w.write(rec)
                    w.flush()
                    w.close()
                    with open(path, "rb") as f:
                        raw = list(fastavro.reader(f))[0]["ts"]
                    res["h"]["avro:value"] = hashlib.sha256(repr(raw.isoformat() if hasattr(raw, "isoformat") else raw).encode()).hexdigest()[:12]
                    rd = RecordReader(path)
                    back = list(rd)[0]
                    rd.close()
                    judge("avro", back.ts, 0.0)
                    judge("avro:_generated", back._generated, 0.0)
                except Exception as e:  # noqa: BLE001
                    if utc_ok:
                        res["viol"].append(["avro:raises-%s" % type(e).__name__, {"error": repr(e)[:120]}])
                    else:
                        res["h"]["avro:value"] = "refused"
            finally:
                if os.path.exists(path):
                    os.unlink(path)
            # avro file of an older release / another tool: the timestamp is a plain long of microseconds since the epoch
            if form == "obj" and x.tzinfo is not None and utc_ok:  # (an instant beyond 9999-12-31T23:59:59.999999Z has no UTC datetime)
                micros = (x - _d.datetime(1970, 1, 1, tzinfo=_d.timezone.utc)) // _d.timedelta(microseconds=1)
                if micros > 0xFFFFFFFF:
                    path = os.path.join(scratch, "c13-long-%d.avro" % os.getpid())
                    try:
                        schema = {"type": "record", "name": "ts", "namespace": "c13", "doc": json.dumps(["c13/ts", [["datetime", "ts"]]]),
                                  "fields": [{"name": "ts", "type": ["null", "long"]}]}
                        with open(path, "wb") as f:
                            fastavro.writer(f, fastavro.parse_schema(schema), [{"ts": micros}])
                        rd = RecordReader(path)
                        got = list(rd)[0].ts
                        rd.close()
                        judge("avro-long", got, 0.0)
                    except Exception as e:  # noqa: BLE001
                        res["viol"].append(["avro-long:raises-%s" % type(e).__name__, {"error": repr(e)[:120]}])
                    finally:
                        if os.path.exists(path):
                            os.unlink(path)
            print(json.dumps(res))
    # (d) ONE writer per format receives ALL values, in both orders: what a writer remembers about one timestamp (its tzinfo
    #     object, its offset) meets every other timestamp of the same zone at another time of the year
    vals = []
    for spec in value_specs(seed):
        try:
            vals.append((spec, ft.datetime(lit.ev(spec))))
        except Exception:  # noqa: BLE001
            pass
    for order in ("fwd", "rev", "unset-first", "two-versions"):
        seq = vals if order != "rev" else vals[::-1]
        # two record types alternate; their timestamp fields have different names
        recs_ = [(desc(ts=x, _generated=gen) if i % 2 == 0 else wdesc(when=x, note="n", _generated=gen)) for i, (_, x) in enumerate(seq)]
        if order == "two-versions":
            # two versions of ONE type name alternate (new, old, new, ...): the newer one has a second timestamp field, which is the
            # one judged for its records
            recs_ = [(desc2(ts=x, ts_end=x, _generated=gen) if i % 2 == 0 else desc(ts=x, _generated=gen)) for i, (_, x) in enumerate(seq)]
        lead = []
        if order == "unset-first":
            # the first record of each type has NO timestamp: whatever a writer derives from the first record of a type (column
            # affinity, a converter, a schema default) must not decide how the timestamps of later records are stored
            lead = [desc(ts=None, _generated=gen), wdesc(when=None, note="n", _generated=gen)]
            recs_ = lead + recs_

        def judge_seq(fmt, got, keep, same_offset=True):
            res = {"spec": "seq:" + order, "form": fmt, "viol": [], "h": {}}
            want = [seq[i] for i in keep]
            if lead:
                if sum(1 for g in got if g is None) != (len(lead) if fmt != "avro" else 1):
                    res["viol"].append(["%s:sequence:unset-timestamps-read-back-as-values" % fmt, {"unset_read": sum(1 for g in got if g is None)}])
                got = [g for g in got if g is not None]
            if len(got) != len(want):
                res["viol"].append(["%s:sequence:count" % fmt, {"read": len(got), "written": len(want)}])
            for (spec, x), g in zip(want, got):
                if g is None or g.tzinfo is None:
                    res["viol"].append(["%s:sequence:naive-or-missing" % fmt, {"spec": spec}])
                elif independent_instant(g) != independent_instant(x):
                    res["viol"].append(["%s:sequence:instant-differs" % fmt, {"spec": spec, "written": wall(x) + [offs(x)], "read": wall(g) + [offs(g)]}])
                elif same_offset and offs(g) != offs(x):
                    res["viol"].append(["%s:sequence:offset-differs" % fmt, {"spec": spec, "written": offs(x), "read": offs(g)}])
            seen = set()
            res["viol"] = [v for v in res["viol"] if not (v[0] in seen or seen.add(v[0]))]
            print(json.dumps(res))

        n += 1
        try:
            buf = io.BytesIO()
            w = RecordStreamWriter(buf)
            for r in recs_:
                w.write(r)
            w.flush()
            w.fp = None
            judge_seq("stream", [tsof(r) for r in RecordStreamReader(io.BytesIO(buf.getvalue()))], range(len(seq)))
        except Exception as e:  # noqa: BLE001
            print(json.dumps({"spec": "seq:" + order, "form": "stream", "viol": [["stream:sequence:raises-%s" % type(e).__name__, {"error": repr(e)[:120]}]], "h": {}}))
        try:
            p = JsonRecordPacker()
            lines = []
            p.on_descriptor.add_handler(lambda dsc: lines.append(p.pack(dsc)))
            for r in recs_:
                lines.append(p.pack(r))
            q = JsonRecordPacker()
            got = [tsof(o) for o in (q.unpack(ln) for ln in lines) if hasattr(o, "ts") or hasattr(o, "when")]
            judge_seq("json", got, range(len(seq)))
        except Exception as e:  # noqa: BLE001
            print(json.dumps({"spec": "seq:" + order, "form": "json", "viol": [["json:sequence:raises-%s" % type(e).__name__, {"error": repr(e)[:120]}]], "h": {}}))
        path = os.path.join(scratch, "c13-seq-%d.sqlite" % os.getpid())
        try:
            w = RecordWriter("sqlite://" + path)
            for r in recs_:
                w.write(r)
            w.flush()
            w.close()
            rd = RecordReader("sqlite://" + path)
            # (the reader goes table by table: the first type's rows, then the second's; two versions of one name share a table, whose
            #  rows all come back with the widest column set: the second timestamp column where it was given, else the first)
            if order == "two-versions":
                judge_seq("sqlite", [(r.ts_end if getattr(r, "ts_end", None) is not None else r.ts) for r in rd], range(len(seq)))
            else:
                judge_seq("sqlite", [tsof(r) for r in rd], list(range(0, len(seq), 2)) + list(range(1, len(seq), 2)))
        except Exception as e:  # noqa: BLE001
            print(json.dumps({"spec": "seq:" + order, "form": "sqlite", "viol": [["sqlite:sequence:raises-%s" % type(e).__name__, {"error": repr(e)[:120]}]], "h": {}}))
        finally:
            if os.path.exists(path):
                os.unlink(path)
        path = os.path.join(scratch, "c13-seq-%d.avro" % os.getpid())
        try:
            keep = []
            for i, (_, x) in enumerate(seq):
                try:
                    x.astimezone(_d.timezone.utc)
                    keep.append(i)
                except OverflowError:
                    pass
            w = RecordWriter(path)
            if lead:
                w.write(lead[0])
            for i in keep:
                w.write(desc(ts=seq[i][1], _generated=gen))  # (an Avro file holds one record type)
            w.flush()
            w.close()
            rd = RecordReader(path)
            got = [r.ts for r in rd]
            rd.close()
            judge_seq("avro", got, keep, same_offset=False)
        except Exception as e:  # noqa: BLE001
            print(json.dumps({"spec": "seq:" + order, "form": "avro", "viol": [["avro:sequence:raises-%s" % type(e).__name__, {"error": repr(e)[:120]}]], "h": {}}))
        finally:
            if os.path.exists(path):
                os.unlink(path)
    # (e) every ORDERED PAIR of values that share a tzinfo object, through one stream writer / one JSON packer
    byzone = {}
    for spec, x in vals:
        if spec.split("tz=")[1].startswith("Z('"):
            byzone.setdefault(spec.split("tz=")[1].split(",fold")[0], []).append((spec, x))
    for zone, zvals in sorted(byzone.items()):
        for fmt in ("stream", "json"):
            res = {"spec": "pairs:" + zone, "form": fmt, "viol": [], "h": {}}
            bad = set()
            for sa, a in zvals:
                ra = desc(ts=a, _generated=gen)
                for sb, b in zvals:
                    n += 1
                    rb = desc(ts=b, _generated=gen)
                    try:
                        if fmt == "stream":
                            buf = io.BytesIO()
                            w = RecordStreamWriter(buf)
                            w.write(ra)
                            w.write(rb)
                            w.flush()
                            w.fp = None
                            got = [r.ts for r in RecordStreamReader(io.BytesIO(buf.getvalue()))]
                        else:
                            p = JsonRecordPacker()
                            lines = []
                            p.on_descriptor.add_handler(lambda dsc: lines.append(p.pack(dsc)))
                            lines += [p.pack(ra), p.pack(rb)]
                            q = JsonRecordPacker()
                            got = [o.ts for o in (q.unpack(ln) for ln in lines) if hasattr(o, "ts")]
                    except Exception as e:  # noqa: BLE001
                        sig = "%s:pair:raises-%s" % (fmt, type(e).__name__)
                        if sig not in bad:
                            bad.add(sig)
                            res["viol"].append([sig, {"first": sa, "second": sb}])
                        continue
                    for (sx, x), g in zip(((sa, a), (sb, b)), got + [None] * (2 - len(got))):
                        if g is None or g.tzinfo is None:
                            sig = "%s:pair:naive-or-missing" % fmt
                        elif independent_instant(g) != independent_instant(x):
                            sig = "%s:pair:instant-differs" % fmt
                        elif offs(g) != offs(x):
                            sig = "%s:pair:offset-differs" % fmt
                        else:
                            continue
                        if sig not in bad:
                            bad.add(sig)
                            res["viol"].append([sig, {"first": sa, "second": sb, "wrong": sx, "read": repr(g)}])
            res["pairs"] = len(zvals) ** 2
            print(json.dumps(res))
    print(json.dumps({"done": n}))


def main(tier, seed, workers=None):
    run = Run(PROP, "exploration", tier, seed, RULE)
    root = os.path.dirname(os.path.dirname(os.path.abspath(__file__)))
    procs = []
    for tz, ostz in ENVS:
        env = dict(os.environ)
        env["VERIF_ROOT"] = root
        env["VERIF_SEED"] = str(seed)
        env["VERIF_TIER_C13"] = tier
        for k, v in (("FLOW_RECORD_TZ", tz), ("TZ", ostz)):
            if v is None:
                env.pop(k, None)
            else:
                env[k] = v
        outf = open(os.path.join(os.environ["VERIF_SCRATCH"], "c13-out-%d.jsonl" % len(procs)), "w+")
        errf = open(os.path.join(os.environ["VERIF_SCRATCH"], "c13-err-%d.txt" % len(procs)), "w+")
        p = subprocess.Popen([sys.executable, "-X", "utf8", "-W", "ignore", "-c", "import sys; sys.path.insert(0, %r); from checks import c13; c13.worker()" % root],
                             env=env, stdout=outf, stderr=errf, text=True)
        procs.append(((tz, ostz), p, outf, errf))
    per_case = {}
    for envkey, p, outf, errf in procs:
        p.wait()
        outf.seek(0)
        errf.seek(0)
        out, err = outf.read(), errf.read()
        outf.close()
        errf.close()
        done = False
        for line in out.splitlines():
            try:
                r = json.loads(line)
            except ValueError:
                continue
            if "done" in r:
                done = True
                continue
            case = {"spec": r["spec"], "form": r["form"], "env": {"FLOW_RECORD_TZ": envkey[0], "TZ": envkey[1]}}
            key = (r["spec"], r["form"])
            viol = [("C13:%s" % v[0], case, v[1]) for v in r["viol"]]
            run.add_result({"ev": r.get("pairs", 1), "h": jhash([key, envkey]), "nt": "rejected" not in r, "out": "%s:%s" % (r["form"], "rejected" if "rejected" in r else ("ok" if not viol else "viol")),
                            "viol": viol})
            per_case.setdefault(key, {})[envkey] = (r.get("rejected"), r["h"])
            if len(run.samples) < 4 and jhash(key)[0] == "0":
                run.sample(case)
        if p.returncode != 0 or not done:
            run.internal_errors.append("worker for env %s failed rc=%s: %s" % (envkey, p.returncode, err[-800:]))
    # (c) the display / OS time zone must not influence what is stored, written or read
    compared = 0
    for key, envs in per_case.items():
        base_env = ENVS[0]
        base = envs.get(base_env)
        for envkey, val in envs.items():
            compared += 1
            if base is None or val == base:
                continue
            diff = [k for k in set(val[1]) | set(base[1]) if val[1].get(k) != base[1].get(k)] or ["accept/reject"]
            run.add_violation("C13:environment-changes-%s:%s" % (diff[0], "FLOW_RECORD_TZ" if envkey[0] != base_env[0] and envkey[1] == base_env[1] else
                                                                 "TZ" if envkey[0] == base_env[0] else "both"),
                              {"spec": key[0], "form": key[1], "env": {"FLOW_RECORD_TZ": envkey[0], "TZ": envkey[1]}},
                              {"differs_in": diff, "base_env": base_env, "this": val[1], "base": base[1]})
    run.extra["environments"] = len(ENVS)
    run.extra["cross_environment_comparisons"] = compared
    run.extra["vacuity_ok"] = 1
    return run.finish(lambda case: [s for s in replay_one(case)])


def _run_env(envd):
    root = os.path.dirname(os.path.dirname(os.path.abspath(__file__)))
    env = dict(os.environ, VERIF_ROOT=root)
    for k in ("FLOW_RECORD_TZ", "TZ"):
        v = envd.get(k)
        if v is None:
            env.pop(k, None)
        else:
            env[k] = v
    p = subprocess.run([sys.executable, "-X", "utf8", "-W", "ignore", "-c", "import sys; sys.path.insert(0, %r); from checks import c13; c13.worker()" % root],
                       env=env, capture_output=True, text=True)
    out = {}
    for line in p.stdout.splitlines():
        try:
            r = json.loads(line)
        except ValueError:
            continue
        if "spec" in r:
            out[(r["spec"], r["form"])] = r
    return out


def replay_one(case):
    """Re-run one (spec, form) in the recorded environment (and in the base environment) -> list of signatures."""
    envd = case.get("env", {})
    here = _run_env(envd).get((case["spec"], case["form"]))
    sigs = ["C13:%s" % v[0] for v in (here or {}).get("viol", [])]
    base_env = {"FLOW_RECORD_TZ": ENVS[0][0], "TZ": ENVS[0][1]}
    if envd != base_env and here is not None:
        base = _run_env(base_env).get((case["spec"], case["form"]))
        if base is not None and (here.get("rejected"), here["h"]) != (base.get("rejected"), base["h"]):
            diff = [k for k in set(here["h"]) | set(base["h"]) if here["h"].get(k) != base["h"].get(k)] or ["accept/reject"]
            which = "FLOW_RECORD_TZ" if envd.get("FLOW_RECORD_TZ") != base_env["FLOW_RECORD_TZ"] and envd.get("TZ") == base_env["TZ"] else \
                "TZ" if envd.get("FLOW_RECORD_TZ") == base_env["FLOW_RECORD_TZ"] else "both"
            sigs.append("C13:environment-changes-%s:%s" % (diff[0], which))
    return sigs


def run_case(case):
    sigs = replay_one(case)
    return {"ev": 1, "h": jhash(case), "viol": [(s, case, {}) for s in sigs]}
