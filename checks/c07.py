"""C07 — both selector engines compute the Python meaning of the expression (E1 over a program grammar x records)."""
from __future__ import annotations

import ast

from mc import recs, refsel, selgrammar
from mc.report import Run, jhash
from mc.space import explore

PROP = "C07"
RULE = ("every program of the selector grammar up to size class 3 (4 in thorough) x 10 records x {interpreted, compiled} against "
        "CPython eval of the same text over a plain namespace (mc.refsel) with eager definedness of all sub-expressions; a "
        "(program, record) pair is non-trivial when the reference is defined; distinct = distinct program text")

_RECS = []


def records():
    if not _RECS:
        for r in selgrammar.RECORDS:
            _RECS.append(recs.build_record(r))
        from flow.record import GroupedRecord

        _RECS.insert(1, recs.build_record(selgrammar.SAME_NAME_OTHER_FIELDS))
        _RECS.insert(3, recs.build_record(selgrammar.SAME_NAMES_OTHER_TYPES))
        other = recs.build_record(recs.rs("sel/other", [["string", "o"], ["varint", "n"]], ["'other'", "77"]))
        _RECS.append(GroupedRecord("sel/grouped", [recs.build_record(selgrammar.RECORDS[0]), other]))
        _RECS.extend([recs.build_record(selgrammar.DEEP), recs.build_record(selgrammar.TWIN1), recs.build_record(selgrammar.TWIN2)])
        # a grouped record of another make-up than the first one (all grouped records share one Python class)
        _RECS.append(GroupedRecord("sel/grouped", [recs.build_record(recs.rs("sel/extra", [["string", "only_here"], ["varint", "k"]], ["'a'", "3"])),
                                                   recs.build_record(recs.rs("sel/other", [["string", "o"], ["varint", "n"]], ["'zz'", "1"]))]))
    return _RECS


def features(expr):
    try:
        tree = ast.parse(expr, mode="eval")
    except SyntaxError:
        return "syntax"
    f = []
    gens = 0
    for node in ast.walk(tree):
        if isinstance(node, ast.Compare):
            ops = [type(o).__name__ for o in node.ops]
            typed = any(refsel._is_type_rooted(x) for x in [node.left] + node.comparators)
            if len(ops) > 1:
                f.append("chain")
            elif typed:
                f.append("Type." + ops[0])
            else:
                f.append(ops[0])
        elif isinstance(node, ast.BinOp):
            f.append(type(node.op).__name__)
        elif isinstance(node, ast.UnaryOp):
            f.append(type(node.op).__name__)
        elif isinstance(node, ast.BoolOp):
            f.append(type(node.op).__name__)
        elif isinstance(node, ast.Call):
            f.append("call:" + (refsel.call_path(node) or "?"))
        elif isinstance(node, ast.GeneratorExp):
            gens += 1
        elif isinstance(node, (ast.IfExp, ast.Subscript, ast.JoinedStr, ast.Dict, ast.Set, ast.ListComp, ast.Lambda, ast.Starred, ast.NamedExpr)):
            f.append(type(node).__name__)
    if gens >= 2:
        f.append("multi-gen")
    elif gens:
        f.append("gen")
    out = []
    for x in f:
        if x not in out:
            out.append(x)
    return "+".join(out[:4]) or "atom"


def has_bare_constructor(expr):
    tree = ast.parse(expr, mode="eval")
    for node in ast.walk(tree):
        if isinstance(node, ast.Call) and isinstance(node.func, ast.Name) and (node.func.id in refsel.TYPE_NAMES or node.func.id == "fields"):
            return True
    return False


COLD = [("net.ipaddress", "'1.2.3.4'"), ("net.ipnetwork", "'10.0.0.0/8'"), ("net.IPAddress", "'1.2.3.4'"), ("net.IPNetwork", "'10.0.0.0/8'"),
        ("net.ipv4.Address", "'1.2.3.4'"), ("net.ipv4.Subnet", "'10.0.0.0/8'"), ("net.tcp.Port", "80"), ("net.udp.Port", "53")]
COLD_CODE = """
import sys, warnings
warnings.simplefilter('ignore')
from flow.record import RecordDescriptor
from flow.record.selector import CompiledSelector, Selector
rec = RecordDescriptor('cold/rec', [('string', 's'), ('varint', 'n')])(s='1.2.3.4', n=80)
cls = CompiledSelector if sys.argv[1] == 'compiled' else Selector
for expr in sys.argv[2:]:
    try:
        print('value', bool(cls(expr).match(rec)))
    except Exception as e:
        print('raise', type(e).__name__)
"""


def run_cold(case):
    """A dotted field-type constructor as the FIRST thing an interpreter evaluates, with one engine only: the result may not
    depend on what another engine, another selector or a descriptor happened to import earlier in the process."""
    import subprocess
    import sys

    h = jhash(case)
    name, arg = case["cold"]
    exprs = ["str(%s(%s)) == '%s'" % (name, arg, arg.strip("'"))]
    viol = []
    outs = []
    res = {}
    for engine in ("compiled", "interpreted"):
        p = subprocess.run([sys.executable, "-W", "ignore", "-c", COLD_CODE, engine] + exprs, capture_output=True, text=True)
        res[engine] = p.stdout.split("\n")[: len(exprs)] if p.returncode == 0 else ["crash " + p.stderr[-200:]] * len(exprs)
    for i, expr in enumerate(exprs):
        want = "value True"
        for engine in ("compiled", "interpreted"):
            got = res[engine][i].strip()
            outs.append("cold:%s:%s" % (engine, got.split()[0] if got else "none"))
            if got != want:
                viol.append(("C07:%s:cold-process:%s:%s" % (engine, name, got.replace(" ", "-")[:40]), case, {"expr": expr, "fresh_interpreter_result": got, "expected": want}))
    return {"ev": 2 * len(exprs), "h": h, "nt": True, "out": sorted(set(outs)), "viol": viol}


def run_case(expr):
    from flow.record.selector import CompiledSelector, Selector

    if isinstance(expr, dict) and "cold" in expr:
        return run_cold(expr)
    if isinstance(expr, dict):
        expr = expr["expr"]
    h = jhash(expr)
    viol = []
    try:
        in_l = refsel.in_language(expr)
        in_lc = refsel.in_language(expr, compiled=True)
        bare = has_bare_constructor(expr)
    except SyntaxError:
        return {"ev": 1, "h": h, "nt": False, "out": "syntax"}
    if refsel.identity_on_literal(expr):
        return {"ev": 1, "h": h, "nt": False, "out": "identity-on-literal", "count": {"programs": 1}}
    skip_compiled = refsel.type_in_container(expr)
    feats = features(expr)
    engines = {}
    try:
        engines["interpreted"] = Selector(expr)
    except Exception as e:  # noqa: BLE001
        engines["interpreted"] = e
    try:
        engines["compiled"] = CompiledSelector(expr)
    except Exception as e:  # noqa: BLE001
        engines["compiled"] = e
    n = 0
    judged = undefined = 0
    vec = []
    if expr in selgrammar.MUST_REJECT:
        sel = engines["interpreted"]
        rej = 0
        for i, rec in enumerate(records()):
            n += 1
            try:
                if isinstance(sel, Exception):
                    raise sel
                got = sel.match(rec)
                viol.append(("C07:interpreted:not-rejected:%s" % feats, {"expr": expr, "record": i},
                             {"expr": expr, "record": i, "evaluated_to": repr(got)[:80]}))
                break
            except RecursionError:
                raise
            except Exception:  # noqa: BLE001
                rej += 1
        return {"ev": n, "h": h, "nt": True, "out": "must-reject:%d" % rej, "viol": viol, "count": {"programs": 1, "must_reject_programs": 1}}
    for i, rec in enumerate(records()):
        ref = refsel.evaluate(expr, rec)
        if ref[0] != "value":
            undefined += 1
            vec.append("u")
            continue
        judged += 1
        vec.append("1" if ref[1] else "0")
        for en, sel in engines.items():
            if en == "compiled" and skip_compiled:
                continue
            n += 1
            if isinstance(sel, Exception):
                got = ("raise", type(sel).__name__)
            else:
                try:
                    got = ("value", bool(sel.match(rec)))
                except RecursionError:
                    raise
                except Exception as e:  # noqa: BLE001
                    got = ("raise", type(e).__name__)
            lang = in_l if en == "interpreted" else in_lc
            if got[0] == "raise":
                if lang or (en == "compiled" and not bare):
                    viol.append(("C07:%s:raises-%s:%s" % (en, got[1], feats), {"expr": expr, "record": i},
                                 {"expr": expr, "record": i, "reference": ref[1], "engine": en, "in_language": lang}))
            elif got[1] != ref[1]:
                viol.append(("C07:%s:truth-differs:%s" % (en, feats), {"expr": expr, "record": i},
                             {"expr": expr, "record": i, "reference": ref[1], "got": got[1], "engine": en, "in_language": lang}))
    seen = set()
    v2 = [v for v in viol if not (v[0] in seen or seen.add(v[0]))]
    return {"ev": max(n, 1), "h": h, "nt": judged > 0, "out": "%s:%s" % ("L" if in_l else "X", "".join(vec)), "viol": v2,
            "count": {"judged_pairs": judged, "undefined_pairs": undefined, "programs": 1, "programs_in_language": 1 if in_l else 0},
            "sample": expr if int(h, 16) % 2999 == 0 else None}


def main(tier, seed, workers=None):
    run = Run(PROP, "exploration", tier, seed, RULE)
    run.assumptions = ["mc.refsel (CPython eval + independent helpers/typed matcher) is the reference meaning",
                       "programs outside the operator tables may be rejected or evaluated correctly"]
    records()
    seen = set()

    def progs():
        for c in COLD:
            yield {"cold": list(c)}
        for p in selgrammar.programs(tier):
            if p not in seen:
                seen.add(p)
                yield p

    explore(run, progs(), run_case, workers, chunk=128, reversed_pass=(tier == "thorough"))
    return run.finish(lambda case: [v[0] for v in run_case(case)["viol"]])


