"""C01 — record stream round-trip preserves every record exactly (E1, four channels)."""
from __future__ import annotations

import io
import os

from mc import recs, streamspace
from mc.obs import obs_list
from mc.report import Run, jhash
from mc.space import explore

PROP = "C01"
RULE = ("every record sequence of the S1..S5 space (type x value alphabet core+ext(seed), all lists of length<=2, pair "
        "products, metadata products, all shape sequences up to L, wrapped atoms) is written and read through 5 channels (incl. one under an active comparison-ignore configuration) "
        "(+3 codecs in thorough); a case is non-trivial if at least one record was accepted by its constructors and its "
        "observation is not the all-None record; distinct = distinct case literal")

_counter = [0]


def channels(tier):
    ch = ["lowlevel", "path", "path.gz", "fileobj", "lowlevel+ignore", "second-generation", "helpers", "resumed", "concatenated", "sink", "two-at-once"]
    if tier == "thorough":
        ch += ["path.bz2", "path.lz4", "path.zst"]
    return ch


TIER = ["quick"]


XFAIL = [()]  # indices of records whose write is expected to raise (set per case)


def _feed(w, records):
    for i, r in enumerate(records):
        if i in XFAIL[0]:
            try:
                w.write(r)
            except (UnicodeError, ValueError, TypeError):
                pass
        else:
            w.write(r)


def _feed_part(w, part, records):
    """_feed for a slice of the case's records (refused-write indices refer to the whole list)."""
    index = {id(r): i for i, r in enumerate(records)}
    for r in part:
        if index[id(r)] in XFAIL[0]:
            try:
                w.write(r)
            except (UnicodeError, ValueError, TypeError):
                pass
        else:
            w.write(r)


def roundtrip(records, channel):
    from flow.record import RecordReader, RecordStreamReader, RecordStreamWriter, RecordWriter

    if channel == "lowlevel+ignore":
        # writing and reading while a comparison-ignore set is configured must not change what goes on the wire
        from flow.record import ignore_fields_for_comparison

        with ignore_fields_for_comparison(["_generated", "x", "a", "n"]):
            return roundtrip(records, "lowlevel")
    if channel == "concatenated":
        # `cat part1 part2`: every part is a complete stream with its own header and announcements; read as one source
        half = (len(records) + 1) // 2
        blob = b""
        for part in (records[:half], records[half:], []):
            buf = io.BytesIO()
            w = RecordStreamWriter(buf)
            _feed_part(w, part, records)
            w.flush()
            blob += buf.getvalue()
        return list(RecordStreamReader(io.BytesIO(blob)))
    if channel == "resumed":
        # a consumer that peeks at the first record (or leaves its loop early) and carries on with the same reader later
        buf = io.BytesIO()
        w = RecordStreamWriter(buf)
        _feed(w, records)
        w.flush()
        rd = RecordStreamReader(io.BytesIO(buf.getvalue()))
        out = []
        for r in rd:
            out.append(r)
            break
        for r in rd:
            out.append(r)
            if len(out) == 2:
                break
        out.extend(rd)
        _counter[0] += 1
        p = os.path.join(os.environ["VERIF_SCRATCH"], "c01-%d-%d.records.gz" % (os.getpid(), _counter[0]))
        try:
            with open(p, "wb") as f:
                import gzip

                f.write(gzip.compress(buf.getvalue()))
            rd2 = RecordReader(p)
            out2 = []
            for r in rd2:
                out2.append(r)
                break
            out2.extend(rd2)
            rd2.close()
        finally:
            os.unlink(p)
        if obs_list(out2) != obs_list(out):
            return out2 if len(out2) != len(out) else out2
        return out
    if channel == "second-generation":
        # what a tool does that reads a stream and writes it on: the records that were READ are written again and read again
        first = roundtrip(records, "lowlevel")
        buf = io.BytesIO()
        w = RecordStreamWriter(buf)
        for r in first:
            w.write(r)
        w.flush()
        return list(RecordStreamReader(io.BytesIO(buf.getvalue())))
    if channel == "helpers":
        # the less used doors: pathlib.Path targets, the stream(src, dst) copy helper, record_stream() over two source files
        import pathlib

        from flow.record import record_stream
        from flow.record.base import stream as copy_stream

        _counter[0] += 1
        base = os.path.join(os.environ["VERIF_SCRATCH"], "c01-%d-%d" % (os.getpid(), _counter[0]))
        paths = [base + "-a.records", base + "-b.records.gz", base + "-c.records"]
        try:
            half = len(records) // 2
            skipped = [i for i in XFAIL[0]]
            keep = [r for i, r in enumerate(records) if i not in skipped]
            for p, part in ((paths[0], records[:half]), (paths[1], records[half:])):
                w = RecordWriter(pathlib.Path(p))
                _feed_part(w, part, records)
                w.flush()
                w.close()
            w = RecordWriter(paths[2])
            copy_stream(record_stream([paths[0], pathlib.Path(paths[1])]), w)
            w.close()
            rd = RecordReader(pathlib.Path(paths[2]))
            out = list(rd)
            rd.close()
            del keep
            return out
        finally:
            for p in paths:
                try:
                    os.unlink(p)
                except OSError:
                    pass
    if channel == "two-at-once":
        # two compressed files open at the same time: records go alternately to two zstd writers, both are closed, then two readers
        # that are open together hand the records back alternately (whatever the library shares between files of one codec shows)
        _counter[0] += 1
        base = os.path.join(os.environ["VERIF_SCRATCH"], "c01-%d-%d" % (os.getpid(), _counter[0]))
        paths = [base + "-x.records.zst", base + "-y.records.zst"]
        try:
            ws = [RecordWriter(p) for p in paths]
            for i, r in enumerate(records):
                _feed_part(ws[i % 2], [r], records)
            for w in ws:
                w.flush()
            for w in ws:
                w.close()
            rds = [RecordReader(p) for p in paths]
            its = [iter(rd) for rd in rds]
            parts = [[], []]
            alive = [True, True]
            while any(alive):
                for k in (0, 1):
                    if alive[k]:
                        try:
                            parts[k].append(next(its[k]))
                        except StopIteration:
                            alive[k] = False
            for rd in rds:
                rd.close()
            # back into write order: refused records took no slot in their file
            kept = [i for i in range(len(records)) if i not in XFAIL[0]]
            out = []
            pos = [0, 0]
            for i in kept:
                k = i % 2
                if pos[k] < len(parts[k]):
                    out.append(parts[k][pos[k]])
                    pos[k] += 1
            out += parts[0][pos[0]:] + parts[1][pos[1]:]
            return out
        finally:
            for p in paths:
                try:
                    os.unlink(p)
                except OSError:
                    pass
    if channel == "sink":
        # a file-like object that is no io class: write() takes everything and returns None (tee / hashing / socket wrappers)
        class Sink:
            def __init__(self):
                self.parts = []

            def write(self, data):
                self.parts.append(bytes(data))

            def flush(self):
                pass

            def close(self):
                pass

        sink = Sink()
        w = RecordStreamWriter(sink)
        _feed(w, records)
        w.flush()
        data = b"".join(sink.parts)
        return list(RecordStreamReader(io.BytesIO(data)))
    if channel == "lowlevel":
        buf = io.BytesIO()
        w = RecordStreamWriter(buf)
        _feed(w, records)
        w.flush()
        data = buf.getvalue()
        return list(RecordStreamReader(io.BytesIO(data)))
    if channel == "fileobj":
        buf = io.BytesIO()
        w = RecordStreamWriter(buf)
        _feed(w, records)
        w.flush()
        data = buf.getvalue()
        rd = RecordReader(fileobj=io.BytesIO(data))
        out = list(rd)
        rd.close()
        return out
    ext = channel[4:]
    _counter[0] += 1
    p = os.path.join(os.environ["VERIF_SCRATCH"], "c01-%d-%d.records%s" % (os.getpid(), _counter[0], ext))
    try:
        w = RecordWriter(p)
        _feed(w, records)
        w.flush()
        w.close()
        rd = RecordReader(p)
        out = list(rd)
        rd.close()
        return out
    finally:
        try:
            os.unlink(p)
        except OSError:
            pass


def run_case(case):
    h = jhash(case)
    try:
        specs = streamspace.expand(case)
        records = [recs.build_record(r) for r in specs]
    except Exception as e:  # noqa: BLE001  constructor rejected the value: outside C01's space (that is C05)
        return {"ev": 1, "h": h, "nt": False, "out": "rejected:" + type(e).__name__}
    # every record must (still) report the descriptor its literal asked for once all records of the case exist
    for spec, r in zip(specs, records):
        if "name" in spec and (r._desc.name != spec["name"] or [list(t) for t in r._desc.get_field_tuples()] != [list(f) for f in spec["fields"]]):
            return {"ev": 1, "h": h, "nt": True, "out": "descriptor-identity",
                    "viol": [("C01:record-reports-another-descriptor", case, {"asked": spec["name"], "reports": r._desc.name})]}
    XFAIL[0] = tuple(i for i, r in enumerate(specs) if r.get("xfail"))
    expected = obs_list([r for i, r in enumerate(records) if i not in XFAIL[0]])
    viol = []
    outs = []
    nontrivial = any(any(s[1] != ["none"] for s in o[3][:-3]) if o[0] == "rec" else True for o in expected)
    n = 0
    for ch in (channels(TIER[0]) if not case.get("light") else ["lowlevel", "path", "path.gz", "sink"]):
        n += 1
        try:
            got = roundtrip(records, ch)
        except Exception as e:  # noqa: BLE001
            sig = "C01:%s:%s:raises-%s" % (case["kind"], case["t"], type(e).__name__)
            viol.append((sig, case, {"channel": ch, "error": repr(e)[:300]}))
            outs.append("raise")
            continue
        ogot = obs_list(got)
        d = recs.list_diff(expected, ogot)
        if d is None:
            # the ordered (type, name) field list each record reports, grouped records' flat view included
            kept = [r for i, r in enumerate(records) if i not in XFAIL[0]]
            for wr, rr in zip(kept, got):
                if [list(t) for t in wr._desc.get_field_tuples()] != [list(t) for t in rr._desc.get_field_tuples()]:
                    viol.append(("C01:%s:field-list-differs" % case["kind"], case, {"channel": ch, "written": [list(t) for t in wr._desc.get_field_tuples()],
                                                                                 "read": [list(t) for t in rr._desc.get_field_tuples()]}))
                    break
            outs.append("ok")
            continue
        idx, slot, ftype, cls = d
        sig = "C01:%s:%s:%s" % (case["kind"] if case["kind"] in ("s3", "s4") else "value", ftype, cls)
        viol.append((sig, case, {"channel": ch, "record_index": idx, "slot": slot, "field_type": ftype, "diff": cls,
                                 "written": expected[idx] if 0 <= idx < len(expected) else None,
                                 "read": ogot[idx] if 0 <= idx < len(ogot) else None}))
        outs.append("diff")
    after = obs_list([r for i, r in enumerate(records) if i not in XFAIL[0]])
    if after != expected:
        viol.append(("C01:writer-mutated-record", case, {"before": expected, "after": after}))
    # dedup signatures within the case
    seen = set()
    v2 = []
    for v in viol:
        if v[0] not in seen:
            seen.add(v[0])
            v2.append(v)
    return {"ev": n, "h": h, "nt": nontrivial, "out": "%s:%s:%s" % (case["kind"], case["t"].split(",")[0], "/".join(sorted(set(outs)))),
            "viol": v2, "sample": case if (int(h, 16) % 997 == 0) else None}


def main(tier, seed, workers=None):
    TIER[0] = tier
    run = Run(PROP, "exploration", tier, seed, RULE)
    run.assumptions = ["CPython 3.12 + msgpack from /venv", "values outside the alphabets are not covered",
                       "identity is judged on mc.obs observations (class, flavour, bit pattern, utcoffset)"]
    explore(run, streamspace.cases(tier, seed), run_case, workers, reversed_pass=(tier == "thorough"))
    run.extra["channels"] = channels(tier)
    return run.finish(lambda case: [v[0] for v in run_case(case)["viol"]])
