"""C11 — compression and container format are detected transparently (exhaustive configuration matrix + junk inputs)."""
from __future__ import annotations

import bz2
import csv
import gzip
import io
import itertools
import json
import os
import shutil
import sys

from mc import recs, refcodec
from mc.faults import ReadOnly, drain
from mc.obs import obs_list
from mc.recs import rs
from mc.rdumpshim import _Std
from mc.report import Run, jhash
from mc.space import explore

PROP = "C11"
RULE = ("codec {none, gz, bz2, lz4, zst, zstd} x container {stream, avro, jsonfile, csvfile} x way of naming the source {path with "
        "extension/scheme, neutral file name, raw FileIO, BufferedReader, BytesIO, read-only non-peekable object, stdin} x record "
        "sequences {empty, 1, 3 mixed, 300}: the file starts with the codec's magic, an independent decompressor + independent "
        "container decoder recover the records, every naming yields the same records; junk inputs are refused. Also two sources "
        "of the same codec read interleaved. non-trivial = every cell")

CODECS = {"none": "", "gz": ".gz", "bz2": ".bz2", "lz4": ".lz4", "zst": ".zst", "zstd": ".zstd"}
MAGIC = {"gz": b"\x1f\x8b", "bz2": b"BZh", "lz4": b"\x04\x22\x4d\x18", "zst": b"\x28\xb5\x2f\xfd", "zstd": b"\x28\xb5\x2f\xfd"}
CONTAINERS = {"stream": ("", ".records"), "avro": ("avro://", ".avro"), "jsonfile": ("jsonfile://", ".json"), "csvfile": ("csvfile://", ".csv")}
NAMINGS = ["path", "neutral", "fileio", "buffered", "bytesio", "readonly", "stdin", "bytesio-at-offset", "fileio-at-offset", "scheme+bytesio", "scheme+fileio", "scheme+stdin", "scheme-dash+stdin", "buffered-reread"]
SEQS = ["empty", "one", "three", "many"]
TIER = ["quick"]
_n = [0]


def decompress(codec, raw):
    if codec == "none":
        return raw
    if codec == "gz":
        return gzip.decompress(raw)
    if codec == "bz2":
        return bz2.decompress(raw)
    if codec == "lz4":
        import lz4.frame

        out = b""
        while raw:
            dec = lz4.frame.LZ4FrameDecompressor()
            out += dec.decompress(raw)
            if not dec.eof:
                raise ValueError("truncated lz4 frame")
            raw = dec.unused_data
        return out
    import zstandard

    return zstandard.ZstdDecompressor().decompressobj().decompress(raw)


def make_records(seq, container):
    single = container in ("avro", "csvfile")
    A = lambda i: rs("c/a", [["string", "s"], ["varint", "n"]], ["'a%d'" % i, str(i)])  # noqa: E731
    B = lambda i: rs("c/b", [["varint", "n"], ["string", "t"]], [str(i), "'b%d'" % i])  # noqa: E731
    if seq == "empty":
        return []
    if seq == "one":
        return [A(0)]
    if seq == "three":
        return [A(0), (A if single else B)(1), A(2)]
    if seq.startswith("big"):
        # small records, then a value of 64 KiB / 200 kB / 2 MiB (above what a buffering layer in front of a compressor holds), then
        # small ones again - and the big one first
        size = int(seq[3:].rstrip("f"))
        big = rs("c/a", [["string", "s"], ["varint", "n"]], ["S('z', %d)" % size, "9"])
        return ([big, A(1), A(2)] if seq.endswith("f") else [A(0), A(1), big, (A if single else B)(3), A(4)])
    n = 300 if seq == "many" else 5000
    return [(A if (single or i % 3) else B)(i) for i in range(n)]


def independent_decode(container, plain):
    """-> list of (typename, n)"""
    if container == "stream":
        got, _ = refcodec.decode_stream(plain) if plain else ([], None)
        return [(o[1], dict((k, v) for k, v in o[3])["n"][2]) for o in got]
    if container == "avro":
        import fastavro

        rd = fastavro.reader(io.BytesIO(plain))
        nm = (rd.writer_schema.get("namespace", "") + "/" + rd.writer_schema["name"]).strip("/").replace(".", "/")
        return [(nm, r["n"]) for r in rd]
    if container == "jsonfile":
        out = []
        for line in plain.decode("utf-8").splitlines():
            d = json.loads(line)
            if d.get("_type") == "record":
                out.append((d["_recorddescriptor"][0], d["n"]))
        return out
    rows = list(csv.reader(io.StringIO(plain.decode("utf-8"), newline="")))
    out = []
    hdr = None
    for row in rows:
        if "n" in row and "_generated" in row:
            hdr = row
            continue
        out.append(("csv", int(dict(zip(hdr, row))["n"])))
    return out


def ident(records):
    return [(r._desc.name, int(r.n)) for r in records]


def run_foreign(case):
    """Compressed files made by other tools with other parameters than the library's writer uses (large zstd window, multi-member gzip,
    maximum levels): every way of naming the source still yields the records."""
    import zstandard
    from flow.record import RecordStreamWriter

    h = jhash(case)
    records = [recs.build_record(r) for r in make_records("three", "stream")]
    buf = io.BytesIO()
    w = RecordStreamWriter(buf)
    for r in records:
        w.write(r)
    w.flush()
    plain = buf.getvalue()
    w.fp = None
    how = case["how"]
    if how.startswith("zstd-window"):
        params = zstandard.ZstdCompressionParameters.from_level(3, window_log=int(how.split("-")[-1]))
        co = zstandard.ZstdCompressor(compression_params=params).compressobj()
        raw = co.compress(plain) + co.flush()
        ext = ".zst"
    elif how == "zstd-level22":
        co = zstandard.ZstdCompressor(level=22).compressobj()
        raw = co.compress(plain) + co.flush()
        ext = ".zst"
    elif how == "gzip-members":
        raw = b"".join(gzip.compress(plain[i:i + 40]) for i in range(0, len(plain), 40))
        ext = ".gz"
    elif how == "bz2-level1-streams":
        raw = bz2.compress(plain[:50], 1) + bz2.compress(plain[50:], 9)
        ext = ".bz2"
    else:
        import lz4.frame

        raw = lz4.frame.compress(plain[:60], block_size=lz4.frame.BLOCKSIZE_MAX4MB, content_checksum=True) + lz4.frame.compress(plain[60:], block_linked=False)
        ext = ".lz4"
    d = os.environ["VERIF_SCRATCH"]
    _n[0] += 1
    path = os.path.join(d, "c11f-%d-%d.records%s" % (os.getpid(), _n[0], ext))
    with open(path, "wb") as f:
        f.write(raw)
    want = ident(records)
    viol = []
    outs = []
    try:
        for naming in NAMINGS:
            got, exc, cls = read_named("stream", naming, path, "", raw)
            if exc is not None:
                viol.append(("C11:foreign:%s:read-raises:%s:%s" % (how, naming, type(exc).__name__), case, {"error": repr(exc)[:200]}))
                outs.append("foreign:raise")
            elif [(r._desc.name, int(r.n)) for r in got] != want:
                viol.append(("C11:foreign:%s:read-differs:%s" % (how, naming), case, {"got": len(got), "want": len(want)}))
                outs.append("foreign:diff")
            else:
                outs.append("foreign:ok")
    finally:
        os.unlink(path)
    return {"ev": len(NAMINGS), "h": h, "nt": True, "out": sorted(set(outs)), "viol": viol}


def run_case(case):
    if case["kind"] == "foreign":
        return run_foreign(case)
    if case["kind"] == "cell":
        return run_cell(case)
    if case["kind"] == "junk":
        return run_junk(case)
    if case["kind"] == "spool":
        return run_spool(case)
    if case["kind"] == "interleaved-writers":
        return run_interleaved_writers(case)
    return run_interleaved(case)


def read_named(container, naming, path, scheme, raw):
    """-> (records, exception, reader class name)"""
    from flow.record import RecordReader

    old_stdin = sys.stdin
    fh = None
    try:
        if naming == "path":
            rd = RecordReader(scheme + path)
        elif naming == "neutral":
            neutral = os.path.join(os.path.dirname(path), "data-%d.bin" % os.getpid())
            shutil.copy(path, neutral)
            try:
                rd = RecordReader(scheme + neutral)
                got, exc = drain(rd)
                cls = type(rd).__name__
                rd.close()
                return got, exc, cls
            finally:
                os.unlink(neutral)
        elif naming == "fileio":
            fh = open(path, "rb", buffering=0)
            rd = RecordReader(fileobj=fh)
        elif naming == "buffered":
            fh = open(path, "rb")
            rd = RecordReader(fileobj=fh)
        elif naming == "bytesio":
            rd = RecordReader(fileobj=io.BytesIO(raw))
        elif naming == "buffered-reread":
            # the caller's own handle read once, rewound, and handed to a second reader: the second reading is judged
            fh = open(path, "rb")
            first = RecordReader(fileobj=fh)
            drain(first)
            fh.seek(0)
            rd = RecordReader(fileobj=fh)
        elif naming == "scheme+bytesio":
            # the container is named by the URL scheme, the bytes come from a file object: the codec is still in the leading bytes
            rd = RecordReader(scheme or "stream://", fileobj=io.BytesIO(raw))
        elif naming == "scheme+fileio":
            fh = open(path, "rb", buffering=0)
            rd = RecordReader(scheme or "stream://", fileobj=fh)
        elif naming == "bytesio-at-offset":
            # the stream is embedded behind a foreign header; the caller hands over a file object positioned at its start
            fh = io.BytesIO(b"\x7fFOREIGN-HEADER" + bytes(113) + raw)
            fh.seek(128)
            rd = RecordReader(fileobj=fh)
        elif naming == "fileio-at-offset":
            emb = path + ".embedded"
            with open(emb, "wb") as f:
                f.write(b"\x7fFOREIGN-HEADER" + bytes(113) + raw)
            try:
                fh = open(emb, "rb", buffering=0)
                fh.seek(128)
                rd = RecordReader(fileobj=fh)
                got, exc = drain(rd)
                cls = type(rd).__name__
                return got, exc, cls
            finally:
                os.unlink(emb)
        elif naming in ("scheme+stdin", "scheme-dash+stdin"):
            # the container named by the URL scheme, the bytes on standard input (stream://  /  avro://-)
            sys.stdin = _Std(raw)
            rd = RecordReader((scheme or "stream://") + ("-" if naming == "scheme-dash+stdin" else ""))
        elif naming == "readonly":
            rd = RecordReader(fileobj=ReadOnly(raw))
        else:
            sys.stdin = _Std(raw)
            rd = RecordReader("-")
        got, exc = drain(rd)
        cls = type(rd).__name__
        try:
            rd.close()
        except Exception:  # noqa: BLE001
            pass
        return got, exc, cls
    except Exception as e:  # noqa: BLE001
        return [], e, None
    finally:
        sys.stdin = old_stdin
        if fh is not None:
            try:
                fh.close()
            except Exception:  # noqa: BLE001
                pass


def run_cell(case):
    from flow.record import RecordWriter

    h = jhash(case)
    codec, container, seq = case["codec"], case["container"], case["seq"]
    scheme, cext = CONTAINERS[container]
    d = os.environ["VERIF_SCRATCH"]
    _n[0] += 1
    path = os.path.join(d, "c11-%d-%d%s%s%s" % (os.getpid(), _n[0], case.get("stem", ""), cext, CODECS[codec]))
    records = [recs.build_record(r) for r in make_records(seq, container)]
    want = ident(records)
    if container == "csvfile":
        want = [("csv", n) for _, n in want]
    viol = []
    outs = []
    label = "%s+%s" % (container, codec) + (":" + case["wopt"] if case.get("wopt") else "")
    try:
        try:
            w = RecordWriter(scheme + path, **({"clobber": False} if case.get("wopt") == "noclobber" else {}))
            for r in records:
                w.write(r)
            w.flush()
            w.close()
        except Exception as e:  # noqa: BLE001
            viol.append(("C11:write-raises:%s:%s" % (label if container in ("jsonfile", "csvfile") else label, type(e).__name__), case, {"error": repr(e)[:200]}))
            return {"ev": 1, "h": h, "nt": True, "out": "write-raise", "viol": viol}
        if not os.path.exists(path):
            viol.append(("C11:written-under-another-name:%s" % label, case, {"asked": os.path.basename(path), "directory_has": sorted(x for x in os.listdir(d) if x.startswith("c11-%d-%d" % (os.getpid(), _n[0])))}))
            for x in os.listdir(d):
                if x.startswith("c11-%d-%d" % (os.getpid(), _n[0])):
                    os.unlink(os.path.join(d, x))
            return {"ev": 1, "h": h, "nt": True, "out": "other-name", "viol": viol}
        raw = open(path, "rb").read()
        # (1) magic + independent decompressor + independent container decoder
        if codec != "none" and not raw.startswith(MAGIC[codec]):
            viol.append(("C11:not-compressed:%s" % label, case, {"head": raw[:8].hex()}))
        try:
            plain = decompress(codec, raw) if (codec == "none" or raw.startswith(MAGIC[codec])) else raw
            got = independent_decode(container, plain)
            if got != want:
                viol.append(("C11:independent-decode-differs:%s" % label, case, {"got": got[:5], "want": want[:5]}))
        except Exception as e:  # noqa: BLE001
            viol.append(("C11:independent-decode-fails:%s:%s" % (label, type(e).__name__), case, {"error": repr(e)[:200]}))
        # (2) every way of naming the source
        namings = NAMINGS if container in ("stream", "avro") else ["path"]
        expected_obs = obs_list(records) if container == "stream" else None
        if TIER[0] == "thorough" and container in ("stream", "avro"):
            # a real process: rdump reading the bytes from a pipe on standard input and writing a stream to a file
            import subprocess

            outp = path + ".out.records"
            p = subprocess.run([sys.executable, "-W", "ignore", "-m", "flow.record.tools.rdump", "-", "-w", outp], input=raw, capture_output=True,
                               env=dict(os.environ), timeout=120)
            try:
                from flow.record import RecordReader as _RR

                got = list(_RR(outp)) if os.path.exists(outp) else []
                gi = [(r._desc.name, int(r.n)) for r in got]
                if p.returncode not in (0, None) or gi != want:
                    viol.append(("C11:read-differs:%s:subprocess-stdin-pipe" % label, case, {"rc": p.returncode, "got": len(gi), "want": len(want), "stderr": p.stderr[-200:].decode("utf-8", "replace")}))
                outs.append("pipe:ok" if gi == want else "pipe:diff")
            finally:
                if os.path.exists(outp):
                    os.unlink(outp)
        for naming in namings:
            got, exc, cls = read_named(container, naming, path, scheme if container != "stream" else "", raw)
            if exc is not None:
                viol.append(("C11:read-raises:%s:%s:%s%s" % (label, naming, type(exc).__name__, ":empty" if not records else ""), case, {"error": repr(exc)[:200]}))
                outs.append(naming + ":raise")
                continue
            gi = [((r._desc.name if container != "csvfile" else "csv"), int(r.n)) for r in got]
            if gi != want:
                viol.append(("C11:read-differs:%s:%s" % (label, naming), case, {"got": gi[:5], "want": want[:5], "count": [len(gi), len(want)]}))
                outs.append(naming + ":diff")
                continue
            if expected_obs is not None and obs_list(got) != expected_obs:
                viol.append(("C11:read-values-differ:%s:%s" % (label, naming), case, {}))
            want_cls = {"stream": "StreamReader", "avro": "AvroReader", "jsonfile": "JsonfileReader", "csvfile": "CsvfileReader"}[container]
            if cls != want_cls:
                viol.append(("C11:reader-class:%s:%s:%s" % (label, naming, cls), case, {}))
            outs.append(naming + ":ok")
    finally:
        try:
            os.unlink(path)
        except OSError:
            pass
    seen = set()
    v2 = [v for v in viol if not (v[0] in seen or seen.add(v[0]))]
    return {"ev": 1 + len(outs), "h": h, "nt": True, "out": ["%s:%s" % (container, o) for o in outs] or [label + ":nothing-read"], "viol": v2,
            "count": {"cells": 1}, "sample": case if int(h, 16) % 29 == 0 else None}


# ---- junk ---------------------------------------------------------------------------------------------------------

def junk_inputs():
    hdr = refcodec.frame(refcodec.mp_encode(refcodec.Bin(refcodec.MAGIC)))
    J = {"empty": b"", "zeros": b"\x00" * 64, "text-record": b"<t/y a=1 b='x'>\n", "json": b'{"a": 1}\n', "obj-garbage": b"Objx" + b"\xff" * 30,
         "png": b"\x89PNG\r\n\x1a\n" + b"\x00" * 30, "zip": b"PK\x03\x04" + b"\x00" * 30, "elf": b"\x7fELF" + b"\x00" * 30,
         "gz-of-garbage": gzip.compress(b"garbage that is no record stream at all", mtime=0), "gz-of-empty": gzip.compress(b"", mtime=0),
         "bz2-of-garbage": bz2.compress(b"garbage that is no record stream at all"), "text-lines": b"hello\nworld\n",
         "gz-of-text-record": gzip.compress(b"<t/y a=1>\n", mtime=0)}
    for k, m in MAGIC.items():
        J["magic-" + k] = m
        J["magic-%s+garbage" % k] = m + bytes(range(32))
    for i in range(1, len(hdr)):
        J["header-prefix-%d" % i] = hdr[:i]
    J["header-shifted"] = b"\x00" + hdr
    J["text-starting-with-magic-word"] = b"RECORDSTREAM\nis just text here, not a stream\n"
    J["header-missing-length"] = hdr[4:] + b"\x00" * 8
    # inputs that merely mention the magic inside their first 19 bytes, followed by padding or by genuine frames
    from flow.record import RecordStreamWriter

    buf = io.BytesIO()
    w = RecordStreamWriter(buf)
    for r in make_records("three", "stream"):
        w.write(recs.build_record(r))
    good = buf.getvalue()
    w.fp = None
    J["magic-word+6-pad-bytes"] = refcodec.MAGIC + b"\n" * 6
    J["magic-word-at-0+frames"] = refcodec.MAGIC + b"\x00" * 6 + good[19:]
    J["magic-word-at-3+frames"] = b"\x00\xc4\x0d" + refcodec.MAGIC + b"\x00" * 3 + good[19:]
    J["stream-without-length-prefix"] = good[4:]
    J["magic-word-at-5+frames"] = b"\x00" * 5 + refcodec.MAGIC + b"\x00" + good[19:]
    for k in ("magic-word-at-0+frames", "magic-word+6-pad-bytes"):
        J["gz-of-" + k] = gzip.compress(J[k], mtime=0)
    return J


def run_junk(case):
    from flow.record import RecordReader
    from flow.record.exceptions import RecordAdapterNotFound

    h = jhash(case)
    data = junk_inputs()[case["name"]]
    viol = []
    outs = []
    d = os.environ["VERIF_SCRATCH"]
    for naming in ("bytesio", "readonly", "stdin", "neutral"):
        old = sys.stdin
        p = None
        try:
            if naming == "bytesio":
                rd = RecordReader(fileobj=io.BytesIO(data))
            elif naming == "readonly":
                rd = RecordReader(fileobj=ReadOnly(data))
            elif naming == "stdin":
                sys.stdin = _Std(data)
                rd = RecordReader("-")
            else:
                _n[0] += 1
                p = os.path.join(d, "c11j-%d-%d.bin" % (os.getpid(), _n[0]))
                open(p, "wb").write(data)
                rd = RecordReader(p)
            got, exc = drain(rd)
        except Exception as e:  # noqa: BLE001
            got, exc = [], e
        finally:
            sys.stdin = old
            if p:
                try:
                    os.unlink(p)
                except OSError:
                    pass
        if got:
            viol.append(("C11:junk-yielded-records:%s:%s" % (case["name"].split("-")[0], naming), case, {"records": len(got), "first": repr(got[0])[:100]}))
            outs.append("yielded")
        elif exc is None:
            # no record and no error: input accepted as an (empty) stream although it is none
            truncated_header = case["name"].startswith("header-prefix") or case["name"] in ("empty",)
            if not truncated_header:
                viol.append(("C11:junk-accepted-silently:%s:%s" % (case["name"], naming), case, {}))
            outs.append("silent")
        else:
            ok = isinstance(exc, (RecordAdapterNotFound, OSError, EOFError, ValueError)) or "Error" in type(exc).__name__ or "Exception" in type(exc).__name__
            outs.append("refused:" + type(exc).__name__)
            if not ok:
                viol.append(("C11:junk-odd-exception:%s" % type(exc).__name__, case, {"error": repr(exc)[:200]}))
    return {"ev": 4, "h": h, "nt": True, "out": outs, "viol": viol, "count": {"junk_inputs": 1}}


def run_interleaved(case):
    """Two sources of the same codec open at once and consumed alternately (shared decompressor state must not exist)."""
    from flow.record import RecordReader, RecordWriter

    h = jhash(case)
    codec = case["codec"]
    d = os.environ["VERIF_SCRATCH"]
    viol = []
    paths = []
    try:
        wants = []
        for k in range(2):
            _n[0] += 1
            p = os.path.join(d, "c11i-%d-%d.records%s" % (os.getpid(), _n[0], CODECS[codec]))
            paths.append(p)
            records = [recs.build_record(rs("c/i%d" % k, [["string", "s"], ["varint", "n"]], ["'%s'" % (chr(97 + k) * 50), str(i + 1000 * k)])) for i in range(200)]
            w = RecordWriter(p)
            for r in records:
                w.write(r)
            w.flush()
            w.close()
            wants.append(ident(records))
        for naming in ("path", "fileobj"):
            fhs = []
            try:
                if naming == "path":
                    rds = [RecordReader(p) for p in paths]
                else:
                    fhs = [open(p, "rb") for p in paths]
                    rds = [RecordReader(fileobj=f) for f in fhs]
                its = [iter(r) for r in rds]
                gots = [[], []]
                for _ in range(200):
                    for k in range(2):
                        gots[k].append(next(its[k]))
                for k in range(2):
                    if ident(gots[k]) != wants[k]:
                        viol.append(("C11:interleaved-readers-differ:%s:%s" % (codec, naming), case, {"reader": k}))
            except Exception as e:  # noqa: BLE001
                viol.append(("C11:interleaved-readers-raise:%s:%s:%s" % (codec, naming, type(e).__name__), case, {"error": repr(e)[:200]}))
            finally:
                for f in fhs:
                    f.close()
    finally:
        for p in paths:
            try:
                os.unlink(p)
            except OSError:
                pass
    return {"ev": 2, "h": h, "nt": True, "out": "interleaved:%s" % ("ok" if not viol else "bad"), "viol": viol}


def run_spool(case):
    """ONE file object of the caller (a w+b spool) holds first a stream in codec c1, is read through RecordReader(fileobj=), is then
    truncated and refilled with other records in codec c2 and read again: the second reading is decided by the bytes that are there now."""
    from flow.record import RecordReader, RecordWriter

    h = jhash(case)
    c1, c2 = case["codecs"]
    d = os.environ["VERIF_SCRATCH"]
    viol = []
    blobs = []
    wants = []
    for k, codec in enumerate((c1, c2)):
        _n[0] += 1
        p = os.path.join(d, "c11s-%d-%d.records%s" % (os.getpid(), _n[0], CODECS[codec]))
        records = [recs.build_record(rs("c/s%d" % k, [["string", "s"], ["varint", "n"]], ["'%s'" % (chr(97 + k) * 20), str(i + 100 * k)])) for i in range(5 + k)]
        w = RecordWriter(p)
        for r in records:
            w.write(r)
        w.flush()
        w.close()
        blobs.append(open(p, "rb").read())
        wants.append(ident(records))
        os.unlink(p)
    _n[0] += 1
    sp = os.path.join(d, "c11spool-%d-%d.tmp" % (os.getpid(), _n[0]))
    f = open(sp, "w+b")
    try:
        for k in range(2):
            rd = got = None
            f.seek(0)
            f.truncate()
            f.write(blobs[k])
            f.flush()
            f.seek(0)
            try:
                rd = RecordReader(fileobj=f)
                got = list(rd)  # (the reader is deliberately not closed: the spool belongs to the caller)
                if ident(got) != wants[k]:
                    viol.append(("C11:spool-reused:%s-then-%s:reading-%d-differs" % (c1, c2, k + 1), case, {"got": len(got), "want": len(wants[k])}))
            except Exception as e:  # noqa: BLE001
                viol.append(("C11:spool-reused:%s-then-%s:reading-%d-raises-%s" % (c1, c2, k + 1, type(e).__name__), case, {"error": repr(e)[:200]}))
            rd = got = None
            import gc

            gc.collect()  # (a decompressing wrapper that is dropped may close the file it wraps: then the caller opens it again)
            if f.closed:
                f = open(sp, "w+b")
    finally:
        try:
            f.close()
        except Exception:  # noqa: BLE001
            pass
        try:
            os.unlink(sp)
        except OSError:
            pass
    return {"ev": 2, "h": h, "nt": True, "out": "spool:%s" % ("ok" if not viol else "bad"), "viol": viol}


def run_interleaved_writers(case):
    """Two writers of the same codec open at once, written alternately (no shared compressor state may exist)."""
    from flow.record import RecordWriter

    h = jhash(case)
    codec = case["codec"]
    d = os.environ["VERIF_SCRATCH"]
    viol = []
    paths = []
    try:
        _n[0] += 1
        paths = [os.path.join(d, "c11w-%d-%d-%d.records%s" % (os.getpid(), _n[0], k, CODECS[codec])) for k in range(2)]
        writers = [RecordWriter(p) for p in paths]
        wants = [[], []]
        for i in range(150):
            for k in range(2):
                r = recs.build_record(rs("c/w%d" % k, [["string", "s"], ["varint", "n"]], ["'%s'" % (chr(97 + k) * (20 + i % 7)), str(i + 1000 * k)]))
                writers[k].write(r)
                wants[k].append((r._desc.name, int(r.n)))
            if i % 50 == 0:
                for w in writers:
                    w.flush()
        for w in writers:
            w.flush()
            w.close()
        for k, p in enumerate(paths):
            try:
                got = independent_decode("stream", decompress(codec, open(p, "rb").read()))
                if got != wants[k]:
                    viol.append(("C11:interleaved-writers-differ:%s" % codec, case, {"writer": k, "got": len(got), "want": len(wants[k])}))
            except Exception as e:  # noqa: BLE001
                viol.append(("C11:interleaved-writers-corrupt:%s:%s" % (codec, type(e).__name__), case, {"writer": k, "error": repr(e)[:200]}))
    finally:
        for p in paths:
            try:
                os.unlink(p)
            except OSError:
                pass
    return {"ev": 2, "h": h, "nt": True, "out": "interleaved-writers:%s" % ("ok" if not viol else "bad"), "viol": viol}


def cases(tier):
    for codec, container, seq in itertools.product(CODECS, CONTAINERS, SEQS + ["big65536", "big65536f", "big200000", "big1000f"] + (["huge", "big8192", "big8192f", "big131072", "big2097152", "big2097152f"] if tier == "thorough" else [])):
        if container == "csvfile" and seq.startswith("big"):
            continue  # (the CSV reader's own 1 KiB dialect sniffing and 128 KiB cell limit: C17's known finding, not a codec matter)
        if container == "csvfile" and seq == "empty":
            continue  # a CSV file without a header row has no content to detect a dialect from: not a codec matter
        yield {"kind": "cell", "codec": codec, "container": container, "seq": seq}
        if seq in ("one", "three"):
            yield {"kind": "cell", "codec": codec, "container": container, "seq": seq, "wopt": "noclobber"}
        if seq == "three" and container in ("stream", "avro"):
            # file names with characters that mean something in a URL: the file is created, found and read under exactly that name
            for stem in (" report%20final", "-a%E9b%2Fc", "-plus+sign&amp", "-caf\u00e9 \u20ac", "-100%"):
                yield {"kind": "cell", "codec": codec, "container": container, "seq": seq, "stem": stem}
    for how in ("zstd-window-20", "zstd-window-24", "zstd-window-27", "zstd-level22", "gzip-members", "bz2-level1-streams", "lz4-frames"):
        yield {"kind": "foreign", "how": how}
    for name in junk_inputs():
        yield {"kind": "junk", "name": name}
    for c1, c2 in itertools.product(CODECS, repeat=2):
        yield {"kind": "spool", "codecs": [c1, c2]}
    for codec in CODECS:
        yield {"kind": "interleaved", "codec": codec}
        yield {"kind": "interleaved-writers", "codec": codec}


def main(tier, seed, workers=None):
    TIER[0] = tier
    run = Run(PROP, "exploration", tier, seed, RULE)
    run.assumptions = ["Python's gzip/bz2 and the lz4/zstandard bindings called directly are the 'standard decompressors'",
                       "inputs that contain the stream magic inside their first 19 bytes are near-streams, not junk, except where listed"]
    explore(run, cases(tier), run_case, workers, chunk=4)
    return run.finish(lambda case: [v[0] for v in run_case(case)["viol"]])
