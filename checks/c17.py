"""C17 — writers lose nothing: close, split and rotation keep every record once."""
from __future__ import annotations

import bz2
import csv
import gc
import gzip
import io
import itertools
import json
import os
import shutil
import sqlite3

from mc import recs, refcodec
from mc.faults import drain
from mc.recs import rs
from mc.report import Run, jhash
from mc.space import explore

PROP = "C17"
RULE = ("(life) all histories up to depth 4 (5 thorough) over {write r1, write r2, flush, close, with-exit, with-exit-on-error, close "
        "again, del} x 15 writer configurations, judged at closed states by the matching reader AND an independent tool; (split) N in "
        "0..9 x limit x suffix length x 5 targets x 3 ways of closing; (rotation) all timestamp sequences <=5 over 3 hour buckets x "
        "pre-existing file x scripted clock. states = distinct (adapter, open/closed, records written, flushed-since-write); "
        "non-trivial = at least one record written")

EVENTS = ["w1", "w2", "flush", "close", "exit", "exit-exc", "del", "wbad"]  # wbad: a record the writer refuses; the caller carries on
CLOSERS = ("close", "exit", "exit-exc")
ADAPTERS = ["stream", "stream.gz", "stream.bz2", "stream.lz4", "stream.zst", "stream-fileobj", "jsonfile", "avro", "sqlite", "csvfile", "line", "text",
            "split+stream", "split+jsonfile", "archive"]
MUST_BE_VALID_WHEN_EMPTY = ("stream", "stream.gz", "stream.bz2", "stream.lz4", "stream.zst", "stream-fileobj", "jsonfile", "avro", "sqlite")
_n = [0]


def rec_spec(kind, i, single_type=False):
    if kind == "w1" or single_type:
        return rs("w/one", [["string", "s"], ["varint", "n"]], ["'%s%d'" % (kind, i), str(i)])
    return rs("w/two", [["varint", "n"], ["bytes", "b"]], [str(i), "b'x%d'" % i])


def fresh_dir():
    _n[0] += 1
    d = os.path.join(os.environ["VERIF_SCRATCH"], "c17-%d-%d" % (os.getpid(), _n[0]))
    os.makedirs(d)
    return d


def open_writer(adapter, d, opt=None):
    """-> (writer, list-of-output-paths function)"""
    from flow.record import RecordWriter
    from flow.record.adapter.stream import StreamWriter

    base = os.path.join(d, "out")
    if adapter.startswith("stream") and adapter != "stream-fileobj":
        ext = adapter[6:]
        return RecordWriter(base + ".records" + ext)
    if adapter == "stream-fileobj":
        return StreamWriter(open(base + ".records", "wb"))
    if adapter == "jsonfile":
        return RecordWriter(base + ".json")
    if adapter == "avro":
        return RecordWriter(base + ".avro")
    if adapter == "sqlite":
        return RecordWriter("sqlite://" + base + ".sqlite" + ("?" + opt if opt else ""))
    if adapter == "csvfile":
        return RecordWriter(base + ".csv")
    if adapter == "line":
        return RecordWriter("line://" + base + ".txt")
    if adapter == "text":
        return RecordWriter("text://" + base + ".txt")
    if adapter == "text-noflush":
        # the writer's own option "do not flush after every record": what is written must still be there after close()
        from flow.record.adapter.text import TextWriter

        return TextWriter(base + ".txt", flush=False)
    if adapter == "split+stream":
        return RecordWriter("split://" + base + ".records?count=2")
    if adapter == "split+jsonfile":
        return RecordWriter("split+jsonfile://" + base + ".json?count=2")
    if adapter == "archive":
        return RecordWriter("archive://" + d + "/arch")
    raise ValueError(adapter)


def plain_bytes(path):
    raw = open(path, "rb").read()
    if path.endswith(".gz"):
        return gzip.decompress(raw)
    if path.endswith(".bz2"):
        return bz2.decompress(raw)
    if path.endswith(".lz4"):
        import lz4.frame

        out = b""
        while raw:  # a flushed writer produces several concatenated frames, as the lz4 tool accepts
            dec = lz4.frame.LZ4FrameDecompressor()
            out += dec.decompress(raw)
            if not dec.eof:
                break
            raw = dec.unused_data
        return out
    if path.endswith(".zst") or path.endswith(".zstd"):
        import zstandard

        return zstandard.ZstdDecompressor().decompressobj().decompress(raw)
    return raw


def obs_n(o):
    """(type name, n) of a record observation"""
    slots = dict((k, v) for k, v in o[3])
    return (o[1], slots["n"][2])


def independent(adapter, d):
    """Read the output with a tool that shares no code with flow.record -> list of (typename, n) or ("count", k); raises on invalid output."""
    files = sorted(os.path.join(dp, f) for dp, _, fs in os.walk(d) for f in fs)
    out = []
    if adapter.startswith("stream") or adapter in ("split+stream", "archive"):
        for f in files:
            got, _ = refcodec.decode_stream(plain_bytes(f))
            out += [obs_n(o) for o in got]
        return out
    if adapter in ("jsonfile", "split+jsonfile"):
        for f in files:
            for line in open(f, encoding="utf-8"):
                doc = json.loads(line)
                if doc.get("_type") == "record":
                    out.append((doc["_recorddescriptor"][0], doc["n"]))
        return out
    if adapter == "avro":
        import fastavro

        for f in files:
            with open(f, "rb") as fh:
                rd = fastavro.reader(fh)
                nm = (rd.writer_schema.get("namespace", "") + "/" + rd.writer_schema["name"]).strip("/").replace(".", "/")
                out += [(nm, r["n"]) for r in rd]
        return out
    if adapter == "sqlite":
        for f in files:
            if f.endswith("-journal"):
                continue
            con = sqlite3.connect(f)
            try:
                for (t,) in con.execute("SELECT name FROM sqlite_master WHERE type='table' ORDER BY name").fetchall():
                    out += [(t, r[0]) for r in con.execute('SELECT n FROM "%s" ORDER BY rowid' % t).fetchall()]
            finally:
                con.close()
        return out
    if adapter == "csvfile":
        csv.field_size_limit(1 << 30)
        for f in files:
            rows = list(csv.reader(open(f, newline="")))
            hdr = None
            for row in rows:
                if "n" in row and "_generated" in row:
                    hdr = row
                    continue
                out.append(("csv", int(dict(zip(hdr, row))["n"])))
        return out
    if adapter == "line":
        for f in files:
            txt = open(f).read()
            out += [("line", int(b.split("\n")[[("n =" in x) for x in b.split("\n")].index(True)].split("=")[1])) for b in txt.split("--[ RECORD ")[1:]]
        return out
    if adapter in ("text", "text-noflush"):
        for f in files:
            for line in open(f).read().splitlines():
                out.append(("text", int(line.split(" n=")[1].split(">")[0].split(" ")[0])))
        return out
    raise ValueError(adapter)


def matching_reader(adapter, d):
    from flow.record import RecordReader

    files = sorted(os.path.join(dp, f) for dp, _, fs in os.walk(d) for f in fs if not f.endswith("-journal"))
    out = []
    for f in files:
        uri = "sqlite://" + f if adapter == "sqlite" else f
        rd = RecordReader(uri)
        got, exc = drain(rd)
        try:
            rd.close()
        except Exception:  # noqa: BLE001
            pass
        if exc is not None:
            raise exc
        out += [(r._desc.name, int(r.n)) for r in got]
    return out


def bulk_specs(prog):
    """Long write programs (every record has a unique n): ["hot", N, pad] one long-lived type between N incidental ones; ["bigmix", size, k]
    k small records, then the FIRST record of another type carrying `size` bytes, then small ones of both; ["bigknown", size, k] the big
    value in a record of the type already in use; ["many", N, pad] N records of one type; ["walk", edge] text sizes walking over edge."""
    out = []
    n = [0]

    def one(pad=0, fill="h"):
        n[0] += 1
        return rs("w/one", [["string", "s"], ["varint", "n"]], ["S('%s', %d)" % (fill, pad), str(n[0])])

    def two(size=2):
        n[0] += 1
        return rs("w/two", [["varint", "n"], ["bytes", "b"]], [str(n[0]), "S(b'\\x07', %d)" % size])

    kind = prog[0]
    if kind == "hot":
        for i in range(prog[1]):
            out.append(one(prog[2]))
            n[0] += 1
            out.append(rs("w/inc%d" % i, [["varint", "n"], ["string", "s%d" % i]], [str(n[0]), "'v'"]))
    elif kind == "bigmix":
        out += [one(3) for _ in range(prog[2])] + [two(prog[1]), one(3), two(), one(3)]
    elif kind == "bigknown":
        out += [one(3) for _ in range(prog[2])] + [one(prog[1], "B"), one(3), two(), one(prog[1] + 1, "C"), one(3)]
    elif kind == "many":
        out += [one(prog[2]) for _ in range(prog[1])]
    elif kind == "bigcells":
        out += [one(prog[1]) for _ in range(3)]
    elif kind == "walk":
        out += [one(sz) for sz in range(prog[1] - 70, prog[1] + 8, 3)] + [two(), one(1)]
    else:
        raise ValueError(prog)
    return out


def run_bulk(case):
    """A long write program through one writer, closed by with / close / flush+close: every record is in the output once, in order,
    for the independent tool and for the matching reader (what a writer holds back in a buffer, a batch or a cache shows here)."""
    h = jhash(case)
    adapter, prog, closing = case["adapter"], case["prog"], case["closing"]
    d = fresh_dir()
    viol = []
    label = "%s:%s" % (adapter, prog[0])
    try:
        specs = bulk_specs(prog)
        records = [recs.build_record(sp) for sp in specs]
        written = [(r._desc.name, int(r.n)) for r in records]
        try:
            w = open_writer(adapter, d, case.get("opt"))
            if closing == "with":
                with w:
                    for r in records:
                        w.write(r)
            else:
                for r in records:
                    w.write(r)
                if closing == "flush+close":
                    w.flush()
                w.close()
        except Exception as e:  # noqa: BLE001
            return {"ev": 1, "h": h, "nt": True, "out": "bulk:%s:raises" % label,
                    "viol": [("C17:bulk:%s:writing-raises-%s" % (label, type(e).__name__), case, {"error": repr(e)[:200]})]}
        want = written
        if adapter == "sqlite":
            want = written = sorted(written, key=lambda x: x[0])
        if adapter in ("csvfile", "line", "text", "text-noflush"):
            want = [(adapter.replace("file", "").replace("-noflush", ""), n) for _, n in written]
        try:
            got = independent(adapter, d)
            if got != want:
                lost = len([x for x in want if x not in set(got)])
                viol.append(("C17:bulk:%s:independent-reader-differs:%s" % (label, "lost" if lost else "order-or-extra"), case, {"written": len(want), "found": len(got), "lost": lost}))
        except Exception as e:  # noqa: BLE001
            viol.append(("C17:bulk:%s:output-invalid:%s" % (label, type(e).__name__), case, {"error": repr(e)[:200]}))
        if adapter not in ("line", "text", "text-noflush"):
            try:
                got = matching_reader(adapter, d)
                wantm = [("csv/reader", n) for _, n in written] if adapter == "csvfile" else written
                if adapter == "sqlite":
                    got = sorted(got, key=lambda x: x[0])
                if got != wantm:
                    viol.append(("C17:bulk:%s:reader-differs" % label, case, {"written": len(wantm), "read": len(got)}))
            except Exception as e:  # noqa: BLE001
                viol.append(("C17:bulk:%s:reader-raises:%s" % (label, type(e).__name__), case, {"error": repr(e)[:200]}))
        w = None
        gc.collect()
    finally:
        shutil.rmtree(d, ignore_errors=True)
    seen = set()
    v2 = [v for v in viol if not (v[0] in seen or seen.add(v[0]))]
    return {"ev": len(specs), "h": h, "nt": True, "out": "bulk:%s:%s" % (label, "ok" if not v2 else "bad"), "viol": v2, "count": {"bulk_records": len(specs)}}


def bulk_cases(tier):
    thorough = tier == "thorough"
    multi = ["stream", "stream.gz", "stream-fileobj", "jsonfile", "sqlite", "line", "text", "text-noflush", "archive"] + (["stream.bz2", "stream.lz4", "stream.zst"] if thorough else ["stream.zst"])
    single = ["avro", "csvfile"]
    sizes = [65536 - 64, 65536, 100000, 200000] + ([4096, 8192, 131072, (1 << 20) + 3] if thorough else [])
    for closing in ("with", "close", "flush+close"):
        for a in multi:
            for pad in (0, 20, 40, 60) if (a.startswith("stream") or a in ("jsonfile", "archive")) else (0,):
                nhot = (140 if a == "sqlite" else 1030 if closing != "flush+close" or thorough else 300)
                yield {"kind": "bulk", "adapter": a, "prog": ["hot", nhot, pad], "closing": closing}
            for size in sizes:
                for k in (0, 1, 3):
                    yield {"kind": "bulk", "adapter": a, "prog": ["bigmix", size, k], "closing": closing}
        for a in multi + single:
            for size in sizes:
                yield {"kind": "bulk", "adapter": a, "prog": ["bigknown", size, 2], "closing": closing} if a not in single else \
                    {"kind": "bulk", "adapter": a, "prog": ["bigcells", size], "closing": closing}
            yield {"kind": "bulk", "adapter": a, "prog": ["many", 3000 if not thorough else 70000, 50], "closing": closing}
            if a not in single:
                yield {"kind": "bulk", "adapter": a, "prog": ["walk", 65536], "closing": closing}
        for a in ("split+stream", "split+jsonfile"):
            for size in sizes[:4]:
                yield {"kind": "bulk", "adapter": a, "prog": ["bigmix", size, 3], "closing": closing}
        yield {"kind": "bulk", "adapter": "sqlite", "prog": ["many", 2500, 10], "closing": closing, "opt": "batch_size=1000"}
        yield {"kind": "bulk", "adapter": "sqlite", "prog": ["many", 2001, 10], "closing": closing}


def run_case(case):
    if case["kind"] == "bulk":
        return run_bulk(case)
    if case["kind"] == "life":
        return run_life(case)
    if case["kind"] == "split":
        return run_split(case)
    return run_rotation(case)


def run_life(case):
    h = jhash(case)
    adapter, hist = case["adapter"], case["hist"]
    single = adapter in ("avro", "csvfile")
    d = fresh_dir()
    viol = []
    states = []
    written = []
    closed = False
    flushed = True
    out = "open"
    try:
        try:
            w = open_writer(adapter, d, case.get("opt"))
        except Exception as e:  # noqa: BLE001
            return {"ev": 1, "h": h, "nt": False, "out": "%s:open-raises-%s" % (adapter, type(e).__name__),
                    "viol": [("C17:life:%s:open-raises-%s" % (adapter, type(e).__name__), case, {"error": repr(e)[:200]})]}
        snapshot = None
        flushed_at_close = False
        for i, ev in enumerate(hist):
            flushed_before = flushed and "flush" in hist[:i]
            try:
                if ev == "wbad":
                    bad = recs.build_record(rs("w/one", [["string", "s"], ["varint", "n"]], ["chr(0xd800)" if adapter not in ("sqlite",) else "'x'", "2**63" if adapter in ("sqlite", "avro") else str(i)]))
                    try:
                        w.write(bad)
                        if adapter in ("jsonfile", "split+jsonfile", "csvfile", "line", "text", "archive"):
                            written.append(("w/one", i))  # these writers can represent it: then it counts as written
                        elif adapter.startswith("stream") or adapter in ("split+stream",):
                            written.append(("w/one", i))
                    except Exception:  # noqa: BLE001
                        pass
                    flushed = False
                elif ev in ("w1", "w2"):
                    # "fresh": every record brings its own (equal) descriptor object, as records of one type from several sources do
                    recs.FRESH_DESCRIPTORS[0] = bool(case.get("fresh"))
                    try:
                        r = recs.build_record(rec_spec(ev, i, single))
                    finally:
                        recs.FRESH_DESCRIPTORS[0] = False
                    w.write(r)
                    written.append((("w/one" if (ev == "w1" or single) else "w/two"), i))
                    flushed = False
                elif ev == "flush":
                    w.flush()
                    flushed = True
                elif ev == "close":
                    w.close()
                elif ev == "exit":
                    w.__exit__(None, None, None)
                elif ev == "exit-exc":
                    err = ValueError("body failed")
                    w.__exit__(ValueError, err, None)
                elif ev == "del":
                    w2 = w
                    w = None
                    del w2
                    gc.collect()
            except Exception as e:  # noqa: BLE001
                viol.append(("C17:life:%s:%s-raises-%s:%s" % (adapter, ev, type(e).__name__, "after-close" if closed else "open"), case,
                             {"error": repr(e)[:200], "step": i}))
                break
            if ev in CLOSERS:
                if not closed:
                    flushed_at_close = flushed_before or ev != "close"
                if closed and snapshot is not None:
                    now = {f: open(os.path.join(dp, f), "rb").read() for dp, _, fs in os.walk(d) for f in fs}
                    if now != snapshot:
                        viol.append(("C17:life:%s:second-close-altered-output" % adapter, case, {"step": i}))
                closed = True
                snapshot = {f: open(os.path.join(dp, f), "rb").read() for dp, _, fs in os.walk(d) for f in fs}
            if ev == "del" and closed and snapshot is not None:
                now = {f: open(os.path.join(dp, f), "rb").read() for dp, _, fs in os.walk(d) for f in fs}
                if now != snapshot:
                    viol.append(("C17:life:%s:del-after-close-altered-output" % adapter, case, {"step": i}))
            states.append(jhash([adapter, closed, len(written), flushed, w is None]))
            if w is None:
                break
        if closed:
            out = "closed"
            want = written
            if adapter == "sqlite":
                want = written = sorted(written, key=lambda x: x[0])  # one table per type: order is kept per table only
            if adapter in ("csvfile", "line", "text"):
                want = [(adapter.replace("file", ""), n) for _, n in written]
            empty_label = ":empty" if not written else ""
            first_closer = next(e for e in hist if e in CLOSERS)
            zero = any(os.path.getsize(os.path.join(dp, f)) == 0 for dp, _, fs in os.walk(d) for f in fs)
            hist_label = "%s:%s%s" % (first_closer, "flushed" if flushed_at_close else "unflushed", ":zero-byte-file" if zero else "")
            # independent tool
            try:
                got = independent(adapter, d)
                if got != want:
                    viol.append(("C17:life:%s:independent-reader-differs%s:%s" % (adapter, empty_label, hist_label), case, {"got": got[:8], "want": want[:8]}))
                    out = "closed-diff"
            except Exception as e:  # noqa: BLE001
                if written or adapter in MUST_BE_VALID_WHEN_EMPTY:
                    viol.append(("C17:life:%s:output-invalid%s:%s:%s" % (adapter, empty_label, hist_label, type(e).__name__), case, {"error": repr(e)[:200]}))
                    out = "closed-invalid"
            # matching reader
            if adapter not in ("line", "text"):
                try:
                    got = matching_reader(adapter, d)
                    wantm = [("csv/reader", n) for _, n in written] if adapter == "csvfile" else written
                    if adapter == "sqlite":
                        got = sorted(got, key=lambda x: x[0])
                    if got != wantm:
                        viol.append(("C17:life:%s:reader-differs%s:%s" % (adapter, empty_label, hist_label), case, {"got": got[:8], "want": wantm[:8]}))
                except Exception as e:  # noqa: BLE001
                    if written or adapter in MUST_BE_VALID_WHEN_EMPTY:
                        viol.append(("C17:life:%s:reader-raises%s:%s:%s" % (adapter, empty_label, hist_label, type(e).__name__), case, {"error": repr(e)[:200]}))
        w = None
        gc.collect()
    finally:
        shutil.rmtree(d, ignore_errors=True)
    seen = set()
    v2 = [v for v in viol if not (v[0] in seen or seen.add(v[0]))]
    return {"ev": max(1, len(hist)), "h": h, "nt": bool(written), "out": "%s:%s" % (adapter, out), "viol": v2, "states": states,
            "count": {"closed_states_judged": 1 if closed else 0, "life_events": len(hist)}, "sample": case if int(h, 16) % 2999 == 0 else None}


# ---- split ----------------------------------------------------------------------------------------------------------

def run_split(case):
    from flow.record import RecordReader, RecordWriter

    h = jhash(case)
    N, limit, slen, target, closing = case["n"], case["limit"], case["slen"], case["target"], case["closing"]
    d = fresh_dir()
    viol = []
    try:
        stem, ext, scheme, query = target
        relative = stem.startswith("rel")
        base = (stem + ext) if relative else os.path.join(d, stem + ext)
        if relative:
            os.chdir(d)
        q = "count=%d&suffix-length=%d" % (limit, slen) + (("&" + query) if query else "")
        uri = ("split+%s://" % scheme if scheme else "split://") + base + "?" + q
        records = [recs.build_record(rec_spec("w1" if i % 2 == 0 else "w2", i)) for i in range(N)]
        want = [(r._desc.name, int(r.n)) for r in records]
        try:
            if closing == "with":
                with RecordWriter(uri) as w:
                    for r in records:
                        w.write(r)
            else:
                w = RecordWriter(uri)
                for r in records:
                    w.write(r)
                if closing == "flush+close":
                    w.flush()
                w.close()
        except Exception as e:  # noqa: BLE001
            viol.append(("C17:split:write-raises-%s" % type(e).__name__, case, {"error": repr(e)[:200]}))
            return {"ev": 1, "h": h, "nt": N > 0, "out": "split:raise", "viol": viol}
        files = sorted(os.listdir(d))
        if stem + ext in files:
            viol.append(("C17:split:unsuffixed-path-written", case, {"files": files}))
        # names: the part index (zero padded to the suffix length) is inserted before the last extension, contiguous from 0
        import re

        idx = {}
        for f in files:
            m = re.search(r"\.(\d+)\.[^.]+$", f)
            if not m or len(m.group(1)) < slen or not f.startswith(stem.split(".")[0]):
                viol.append(("C17:split:part-names", case, {"files": files}))
                break
            idx[int(m.group(1))] = f
        nparts = len(files)
        if sorted(idx) != list(range(nparts)):
            viol.append(("C17:split:part-indices-not-contiguous", case, {"files": files}))
        expect_names = [idx[i] for i in sorted(idx)]
        expected_parts = max(1, -(-N // limit)) if N % limit or N == 0 else N // limit
        if nparts not in (expected_parts, expected_parts + 1):
            viol.append(("C17:split:part-count", case, {"parts": nparts, "expected": expected_parts}))
        allgot = []
        rawcat = b""
        for i, name in enumerate(expect_names):
            p = os.path.join(d, name)
            if not os.path.exists(p):
                continue
            part = None
            try:
                rd = RecordReader(("jsonfile://" + p) if scheme == "jsonfile" else p)
                got, exc = drain(rd)
                rd.close()
                if exc is not None:
                    raise exc
                part = [(r._desc.name, int(r.n)) for r in got]
            except Exception as e:  # noqa: BLE001
                try:
                    empty_tail = i == nparts - 1 and plain_bytes(p) == b""
                except Exception:  # noqa: BLE001
                    empty_tail = False
                viol.append(("C17:split:part-unreadable:%s:%s" % ("empty-last-part:" + closing if empty_tail else "part", type(e).__name__), case, {"part": name, "error": repr(e)[:200]}))
                continue
            if len(part) > limit:
                viol.append(("C17:split:part-over-limit", case, {"part": name, "records": len(part)}))
            allgot += part
            if scheme != "jsonfile":
                rawcat += plain_bytes(p)
        if allgot != want:
            viol.append(("C17:split:concatenation-differs", case, {"got": allgot[:10], "want": want[:10]}))
        if scheme != "jsonfile" and rawcat:
            try:
                from flow.record import RecordStreamReader

                got = [(r._desc.name, int(r.n)) for r in RecordStreamReader(io.BytesIO(rawcat))]
                if got != want:
                    viol.append(("C17:split:raw-byte-concatenation-differs", case, {"got": got[:10], "want": want[:10]}))
            except Exception as e:  # noqa: BLE001
                viol.append(("C17:split:raw-byte-concatenation-unreadable:%s" % type(e).__name__, case, {"error": repr(e)[:200]}))
    finally:
        os.chdir("/")
        shutil.rmtree(d, ignore_errors=True)
    seen = set()
    v2 = [v for v in viol if not (v[0] in seen or seen.add(v[0]))]
    return {"ev": 1, "h": h, "nt": N > 0, "out": "split:%s" % ("ok" if not v2 else "bad"), "viol": v2, "count": {"split_cases": 1},
            "sample": case if int(h, 16) % 499 == 0 else None}


# ---- rotation -------------------------------------------------------------------------------------------------------

class _FakeDT:
    """Stands in for the `datetime` module inside flow.record.stream: a scripted clock."""

    def __init__(self, real, ticks):
        self._real = real
        self.timezone = real.timezone
        self.timedelta = real.timedelta
        self._ticks = ticks
        self._i = 0
        outer = self

        class _D(real.datetime):
            @classmethod
            def now(cls, tz=None):
                t = outer._ticks[min(outer._i, len(outer._ticks) - 1)]
                outer._i += 1
                return real.datetime(2030, 1, 1, 0, 0, t, tzinfo=tz)

        self.datetime = _D


def run_rotation(case):
    import datetime as real_dt

    import flow.record.stream as st
    from flow.record import RecordReader, RecordWriter
    from flow.record.stream import PathTemplateWriter

    h = jhash(case)
    seq, pre, clock = case["seq"], case["pre"], case["clock"]
    d = fresh_dir()
    viol = []
    try:
        tkind = case.get("template", "hour")
        tmpl = os.path.join(d, {"hour": "{name}-{record._generated:%Y%m%dT%H}.records.gz",
                                "minute": "{name}-{record._generated:%Y%m%dT%H%M}.records.gz",
                                "field": "{name}-{record._generated:%Y%m%dT%H}-{record.s}.records.gz",
                                "field-samesec": "{name}-{record._generated:%Y%m%dT%H}-{record.s}.records.gz",
                                "micro": "{name}-{record._generated:%Y%m%dT%H%M%S.%f}.records",
                                "offset": "{name}-{record._generated:%Y%m%dT%H}.records.gz",
                                "dayshift": "{name}-{record._generated:%Y%m%dT%H}.records.gz",
                                "zst": "{name}-{record._generated:%Y%m%dT%H}.records.zst",
                                "noext": "{name}-{record._generated:%Y%m%dT%H}", "dotted": "{name}.v1.2-{record._generated:%Y%m%dT%H}.rec"}[tkind])
        hours = {"h1": 1, "h2": 2, "h3": 3}
        sentinels = []
        door = case.get("door", "template")
        if door != "template":
            # RecordArchiver / the archive:// adapter put the default hourly template under <dir>/YYYY/mm/dd/
            tmpl = os.path.join(d, "2021", "05", "05", "{name}-{record._generated:%Y%m%dT%H}.records.gz")
            os.makedirs(os.path.dirname(tmpl))
            if tkind == "dayshift":
                pre = False
        if pre:
            p = tmpl.format(name="records", record=type("R", (), {"_generated": real_dt.datetime(2021, 5, 5, hours["h1"], tzinfo=real_dt.timezone.utc)})())
            w = RecordWriter(p)
            for i in (900, 901):
                r = recs.build_record(rs("w/sentinel", [["varint", "n"]], [str(i)]))
                w.write(r)
                sentinels.append(("w/sentinel", i))
            w.flush()
            w.close()
        ticks = list(range(1, 60)) if clock == "advances" else [7] * 60
        old = st.datetime
        st.datetime = _FakeDT(real_dt, ticks)
        written = []
        try:
            if door == "archiver":
                from flow.record.stream import RecordArchiver

                w = RecordArchiver(d)
            elif door == "archive-uri":
                w = RecordWriter("archive://" + d)
            else:
                w = PathTemplateWriter(tmpl)
            for i, hb in enumerate(seq):
                if i and i == case.get("restart_at") and door == "template":
                    # the archiving tool is restarted: a NEW writer instance carries on with the same template (and meets the files,
                    # rotated ones included, that the first instance left)
                    w.close()
                    w = PathTemplateWriter(tmpl)
                ts = "dt(2021,5,5,%d,%d,0,tz=UTC)" % (hours[hb], i)
                if tkind == "dayshift":
                    # just after local midnight at +02:00 (the evening before in UTC): directory {ts:%Y/%m/%d} and file name follow the record's own timestamp
                    ts = {"h1": "dt(2021,5,5,0,10,%d,tz=off(2))", "h2": "dt(2021,5,5,1,10,%d,tz=off(2))", "h3": "dt(2021,5,5,23,50,%d,tz=off(3,neg=True))"}[hb] % i
                if tkind == "offset":
                    # +05:30: h1 -> 11:50 local (06:20Z), h2 -> 12:10 local (06:40Z), h3 -> 12:50 local (07:20Z): one UTC hour holds two local hours
                    ts = {"h1": "dt(2021,5,5,11,50,%d,tz=off(5,30))", "h2": "dt(2021,5,5,12,10,%d,tz=off(5,30))", "h3": "dt(2021,5,5,12,50,%d,tz=off(5,30))"}[hb] % i
                if tkind == "field-samesec":  # all records of an hour carry the very same timestamp and differ in the field only
                    ts = "dt(2021,5,5,%d,0,0,tz=UTC)" % hours[hb]
                if tkind == "micro":  # ... or differ in the microseconds only
                    ts = "dt(2021,5,5,%d,0,0,%d,tz=UTC)" % (hours[hb], 250000 * (i % 4))
                sval = "k%d" % (i % 2)
                r = recs.build_record(rs("w/one", [["string", "s"], ["varint", "n"]], ["'%s'" % sval, str(i)], _generated=ts))
                w.write(r)
                prefix_ = {"dayshift": "2021/05/05/records-20210505T%s" % {"h1": "00", "h2": "01", "h3": "23"}[hb], "offset": "records-20210505T%s" % {"h1": "11", "h2": "12", "h3": "12"}[hb], "zst": "records-20210505T%02d" % hours[hb],
                           "noext": "records-20210505T%02d" % hours[hb], "dotted": "records.v1.2-20210505T%02d" % hours[hb],
                           "hour": "records-20210505T%02d" % hours[hb], "minute": "records-20210505T%02d%02d" % (hours[hb], i),
                           "field": "records-20210505T%02d-%s" % (hours[hb], sval), "field-samesec": "records-20210505T%02d-%s" % (hours[hb], sval),
                           "micro": "records-20210505T%02d0000.%06d" % (hours[hb], 250000 * (i % 4))}[tkind]
                written.append((("w/one", i), prefix_))
            w.close()
        except Exception as e:  # noqa: BLE001
            viol.append(("C17:rotation:raises-%s" % type(e).__name__, case, {"error": repr(e)[:200]}))
        finally:
            st.datetime = old
        found = []
        listing = sorted(os.path.relpath(os.path.join(dp, f), d) for dp, _, fs in os.walk(d) for f in fs)
        for rel in listing:
            f = os.path.basename(rel)
            try:
                rd = RecordReader(os.path.join(d, rel))
                got, exc = drain(rd)
                rd.close()
                if exc is not None:
                    raise exc
            except Exception as e:  # noqa: BLE001
                viol.append(("C17:rotation:file-unreadable:%s" % type(e).__name__, case, {"file": f, "error": repr(e)[:200]}))
                continue
            for r in got:
                found.append(((r._desc.name, int(r.n)), f))
        want_ids = sorted([w_[0] for w_ in written] + sentinels)
        got_ids = sorted(x[0] for x in found)
        if got_ids != want_ids:
            lost = [x for x in want_ids if x not in got_ids]
            dup = sorted({x for x in got_ids if got_ids.count(x) > 1})
            viol.append(("C17:rotation:%s:clock=%s" % ("records-lost" if lost else "records-duplicated", clock), case,
                         {"lost": lost[:6], "duplicated": dup[:6], "files": listing}))
        prefix = dict(written)
        for ident, f in found:
            if ident in prefix and "/" in prefix[ident]:
                rel = next(r_ for r_ in listing if os.path.basename(r_) == f)
                if not rel.startswith(prefix[ident]):
                    viol.append(("C17:rotation:record-in-wrong-file", case, {"record": ident, "file": rel, "expected_prefix": prefix[ident]}))
                    break
                continue
            if ident in prefix and not f.startswith(prefix[ident]):
                viol.append(("C17:rotation:record-in-wrong-file", case, {"record": ident, "file": f}))
                break
    finally:
        shutil.rmtree(d, ignore_errors=True)
    seen = set()
    v2 = [v for v in viol if not (v[0] in seen or seen.add(v[0]))]
    return {"ev": 1, "h": h, "nt": len(seq) > 0, "out": "rotation:%s" % ("ok" if not v2 else "bad"), "viol": v2, "count": {"rotation_cases": 1},
            "sample": case if int(h, 16) % 499 == 0 else None}


def cases(tier, seed):
    yield from bulk_cases(tier)
    depth = 5 if tier == "thorough" else 4
    for adapter in ADAPTERS:
        for k in range(1, depth + 1):
            for hist in itertools.product(EVENTS, repeat=k):
                # after the first closing event only 'close' again or 'del' make sense; 'del' ends the history
                bad = False
                closed = False
                for i, e in enumerate(hist):
                    if closed and e not in ("close", "del"):
                        bad = True
                        break
                    if e in CLOSERS:
                        closed = True
                    if e == "del" and i != len(hist) - 1:
                        bad = True
                        break
                if bad:
                    continue
                if "wbad" in hist and adapter not in ("stream", "stream.gz", "stream-fileobj", "sqlite", "jsonfile", "split+stream"):
                    continue  # refused writes: Avro's behaviour is C19's known finding; text writers have no notion of a refused record
                yield {"kind": "life", "adapter": adapter, "hist": list(hist)}
                if k <= 3 and "wbad" not in hist and sum(1 for e in hist if e in ("w1", "w2")) >= 2:
                    yield {"kind": "life", "adapter": adapter, "hist": list(hist), "fresh": True}
                if adapter == "sqlite" and "wbad" not in hist:
                    # commit batches of 2 and 3 records: batch boundaries fall inside these histories
                    yield {"kind": "life", "adapter": adapter, "hist": list(hist), "opt": "batch_size=2"}
                    if k >= 3:
                        yield {"kind": "life", "adapter": adapter, "hist": list(hist), "opt": "batch_size=3"}
    targets = [("x", ".records", "", ""), ("x", ".records.gz", "", ""), ("x", ".json", "jsonfile", ""), ("x.with.dots", ".records", "", ""),
               ("y", ".json", "jsonfile", "descriptors=true"), ("rel", ".jsonl", "jsonfile", ""), ("relstream", ".records", "stream", "")]
    for n, limit, slen, target, closing in itertools.product(range(0, 10), [1, 2, 3, 4, 10], [1, 2, 3], targets, ["with", "flush+close", "close"]):
        yield {"kind": "split", "n": n, "limit": limit, "slen": slen, "target": list(target), "closing": closing}
    for n, limit in ((12, 1), (25, 2), (11, 1)):
        yield {"kind": "split", "n": n, "limit": limit, "slen": 1, "target": list(targets[0]), "closing": "with"}
    for k in range(1, 6):
        for seq in itertools.product(["h1", "h2", "h3"], repeat=k):
            for pre in (False, True):
                for clock in ("advances", "same-second"):
                    yield {"kind": "rotation", "seq": list(seq), "pre": pre, "clock": clock}
        if k == 5:
            # the same two or three targets rotated many times (12+ rotations of one path within one clock second)
            for base_seq, reps in ((["h1", "h2"], 14), (["h1", "h2", "h3"], 13), (["h1", "h1", "h2"], 13), (["h1", "h2"], 25)):
                for clock in ("advances", "same-second"):
                    for pre in (False, True):
                        yield {"kind": "rotation", "seq": base_seq * reps, "pre": pre, "clock": clock}
        if k == 5:
            for base_seq, reps in ((["h1", "h2"], 3), (["h1", "h2"], 5), (["h1", "h2", "h3"], 3), (["h1", "h1", "h2"], 3)):
                full = base_seq * reps
                for at in range(2, len(full)):
                    for clock in ("advances", "same-second"):
                        for pre in (False, True):
                            yield {"kind": "rotation", "seq": full, "pre": pre, "clock": clock, "restart_at": at}
        if k <= 4:
            for door in ("archiver", "archive-uri"):
                for seq in itertools.product(["h1", "h2", "h3"], repeat=k):
                    for pre in (False, True):
                        yield {"kind": "rotation", "seq": list(seq), "pre": pre, "clock": "advances", "door": door}
            for door in ("archiver", "archive-uri"):
                for seq in itertools.product(["h1", "h2", "h3"], repeat=min(k, 3)):
                    yield {"kind": "rotation", "seq": list(seq), "pre": False, "clock": "advances", "door": door, "template": "dayshift"}
            for tk in ("offset", "zst"):
                for seq in itertools.product(["h1", "h2", "h3"], repeat=k):
                    yield {"kind": "rotation", "seq": list(seq), "pre": False, "clock": "advances", "template": tk}
            for tk in ("minute", "field", "field-samesec", "micro"):
                for seq in itertools.product(["h1", "h2"], repeat=k):
                    yield {"kind": "rotation", "seq": list(seq), "pre": False, "clock": "advances", "template": tk}
            # file names without an extension / with dots in the stem, rotated repeatedly within one clock second
            for tk in ("noext", "dotted"):
                for seq in itertools.product(["h1", "h2"], repeat=k + 1):
                    for clock in ("advances", "same-second"):
                        for pre in (False, True):
                            yield {"kind": "rotation", "seq": list(seq), "pre": pre, "clock": clock, "template": tk}


def main(tier, seed, workers=None):
    run = Run(PROP, "model_checking", tier, seed, RULE)
    run.assumptions = ["writes after close are not part of the alphabet", "del is judged only after a closing event (it must not raise or alter the output)"]
    explore(run, cases(tier, seed), run_case, workers, chunk=32)
    run.states = max(1, len(run.state_hashes))
    run.transitions = run.extra.get("life_events", 0)
    run.traces = run.transitions
    return run.finish(lambda case: [v[0] for v in run_case(case)["viol"]])
