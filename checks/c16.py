"""C16 — rdump output is the specified slice of the filtered input (option product + every placement of bad sources)."""
from __future__ import annotations

import csv
import gzip
import io
import itertools
import json
import os
import shutil

from mc import lit, recs, refsel
from mc.faults import drain
from mc.obs import obs, obs_list
from mc.rdumpshim import run_rdump
from mc.recs import rs
from mc.report import Run, jhash
from mc.space import explore

PROP = "C16"
RULE = ("(P1) skip x count x selector x engine x all source lists of length 1..2 (3 thorough) over {G1, G2, G3, G0} with EVERY placement "
        "of 0..1 (2 thorough) bad sources out of {missing, zero-byte, garbage, garbage.gz, torn mid-frame, cut at frame boundary, torn gzip, "
        "gzip body damaged}, written with -w to a record stream; (P2) field / exclude lists x metadata overrides x --multi-timestamp x 11 "
        "writer kinds; reference pipeline = concatenation of intact prefixes -> reference selector -> skip/count -> override -> projection "
        "model -> timestamp-expansion model; outputs decoded per writer kind by independent parsers. non-trivial = run with a bad "
        "source, a selector, a slice or a projection")

_n = [0]


def A(i):
    return rs("t/a", [["string", "s"], ["varint", "n"], ["datetime", "ts"], ["datetime", "seen"]],
              ["'a%d'" % i, str(i), "dt(2020,1,%d,tz=UTC)" % (i % 27 + 1), "dt(2021,2,%d,1,2,3,tz=off(2))" % (i % 27 + 1)], _source="'src-a'")


def B(i):
    return rs("t/b", [["string", "w"], ["varint", "n"]], ["'b%d'" % i, str(i)], _source="'src-b'", _classification="'cls'")


def N(i):
    return rs("t/n", [["record", "sub"], ["varint", "n"]], [B(100 + i), str(i)])


def A_v2(i):
    return rs("t/a", [["string", "s"], ["varint", "n"], ["string", "owner"], ["varint", "mode"]], ["'a%d'" % i, str(i), "'root'", "420"], _source="'src-a2'")


def K1(i):  # K1 / K2: two types of one name whose (name, hash) identifiers coincide
    return rs("t/k", [["stringlist", "a"], ["string", "b"]], ["['p%d', 'q']" % i, "'b%d'" % i], _source="'src-k1'")


def K2(i):
    return rs("t/k", [["string", "a"], ["string", "listb"]], ["'plain%d'" % i, "'lb%d'" % i], _source="'src-k2'")


def A_unset(i, which):  # A with one or both timestamps unset
    ts = "None" if which in ("ts", "both") else "dt(2020,1,%d,tz=UTC)" % (i % 27 + 1)
    seen = "None" if which in ("seen", "both") else "dt(2021,2,%d,1,2,3,tz=off(2))" % (i % 27 + 1)
    return rs("t/a", [["string", "s"], ["varint", "n"], ["datetime", "ts"], ["datetime", "seen"]], ["'a%d'" % i, str(i), ts, seen], _source="'src-a'")


GOOD = {
    "G6": [K1(60), K2(61), K1(62), K2(63), B(64)],
    "G4": [A(40), A_v2(41), A(42), A_v2(43), A_unset(44, "seen"), A_unset(45, "both"), A_unset(46, "ts")],
    "G5": [B(50), A(51), B(52)],
    "G1": [A(i) if i % 2 == 0 else B(i) for i in range(8)],
    "G2": [N(20), A(21), N(22)],
    "G3": [A(30), B(31)],
    "G0": [],
}
BAD = ["missing", "zero", "garbage", "garbage.gz", "torn", "boundary", "torn.gz", "damaged.gz", "damaged-head.gz", "garbage.lz4", "garbage.zst", "garbage.bz2",
       "junk-after.gz", "badcrc.gz", "junk-after.bz2"]
SELECTORS = [None, "True", "r.n > 3", "r.s == 'a2' or r.s == 'a21' or r.s == 'a30'", "r.n == -1", "r.w == 'b3' or name(r) == 't/n'",
             "has_field(r, 's') and any(c == 'a' for c in r.s)", "any(c in '24' for c in str(r.n)) and any(c != 'q' for c in name(r))",
             "r.s == 'a2' or True", "not (r.s == 'a2')", "r.w == 'b3' or r.n > 20",
             "r.w is not None", "r.s is None or r.n == 4"]
_SRC = {}


def build_sources(d):
    """Write every source once per process -> {key: (path, intact records as specs)}"""
    from flow.record import RecordStreamWriter, RecordWriter

    if d in _SRC:
        return _SRC[d]
    out = {}
    for key, specs in GOOD.items():
        ext = {"G1": ".records", "G2": ".records.gz", "G3": ".json", "G0": ".records", "G4": ".records", "G5": ".records.gz", "G6": ".records"}[key]
        p = os.path.join(d, key + ext)
        w = RecordWriter(p)
        for s in specs:
            w.write(recs.build_record(s))
        w.flush()
        w.close()
        if key == "G5":  # compressed content under a neutral name
            os.rename(p, os.path.join(d, "G5.rec"))
            p = os.path.join(d, "G5.rec")
        out[key] = (p, specs)
    g1 = open(out["G1"][0], "rb").read()
    from mc import refcodec

    frames = refcodec.split_frames(g1)
    _, dec = refcodec.decode_stream(g1)
    ends = [(end, ev[0] in ("REC", "GROUPED")) for (_, end, _), ev in zip(frames, dec.events)]
    # torn in the middle of the frame of the 6th record: intact prefix = 5 records
    rec_ends = [e for e, isrec in ends if isrec]
    torn_at = rec_ends[5] - 3
    boundary_at = rec_ends[4]
    files = {
        "zero": (b"", []),
        "garbage": (bytes(range(200)), []),
        "garbage.gz": (bytes(range(200)), []),
        "torn": (g1[:torn_at], GOOD["G1"][:5]),
        "boundary": (g1[:boundary_at], GOOD["G1"][:5]),
    }
    for key, (data, specs) in files.items():
        p = os.path.join(d, "bad-" + key + (".records" if not key.endswith(".gz") else ".records.gz"))
        open(p, "wb").write(data)
        out[key] = (p, specs)
    # a long, poorly compressible stream so that the torn gzip holds many complete deflate blocks
    import hashlib
    import zlib

    long_specs = [rs("t/l", [["string", "h"], ["varint", "n"]], ["'%s'" % hashlib.sha256(b"%d" % i).hexdigest() * 3, str(1000 + i)]) for i in range(400)]
    lbuf = io.BytesIO()
    lw = RecordStreamWriter(lbuf)
    for sp in long_specs:
        lw.write(recs.build_record(sp))
    lraw = lbuf.getvalue()
    lw.fp = None
    lframes = refcodec.split_frames(lraw)
    _, ldec = refcodec.decode_stream(lraw)
    lrec_ends = [end for (_, end, _), ev in zip(lframes, ldec.events) if ev[0] in ("REC", "GROUPED")]
    gz = gzip.compress(lraw, mtime=0)
    p = os.path.join(d, "bad-torn.records.gz")
    cut = (len(gz) * 2) // 3
    open(p, "wb").write(gz[:cut])
    avail = len(zlib.decompressobj(31).decompress(gz[:cut]))
    out["torn.gz"] = (p, long_specs[: sum(1 for e in lrec_ends if e <= avail)])
    gz = gzip.compress(g1, mtime=0)
    dmg = bytearray(gz)
    for i in range(len(dmg) // 2, len(dmg) // 2 + 8):
        dmg[i] ^= 0xFF
    p = os.path.join(d, "bad-damaged.records.gz")
    open(p, "wb").write(bytes(dmg))
    out["damaged.gz"] = (p, None)  # the intact prefix of a damaged deflate body is not defined: only later sources are judged
    dmg = bytearray(gz)
    for i in range(10, 40):
        dmg[i] = 0xFF
    p = os.path.join(d, "bad-damaged-head.records.gz")
    open(p, "wb").write(bytes(dmg))
    out["damaged-head.gz"] = (p, None)
    # sources that deliver ALL their records and fail afterwards (an OSError from the decompressor, not a format error of the
    # stream): a complete gzip / bz2 file followed by junk, a gzip file whose CRC trailer is wrong
    p = os.path.join(d, "bad-junk-after.records.gz")
    open(p, "wb").write(gz + b"JUNK" * 8)
    out["junk-after.gz"] = (p, GOOD["G1"])
    crc = bytearray(gz)
    crc[-8] ^= 0xFF
    p = os.path.join(d, "bad-badcrc.records.gz")
    open(p, "wb").write(bytes(crc))
    out["badcrc.gz"] = (p, GOOD["G1"])
    import bz2

    p = os.path.join(d, "bad-junk-after.records.bz2")
    open(p, "wb").write(bz2.compress(g1) + b"JUNK" * 8)
    out["junk-after.bz2"] = (p, GOOD["G1"])
    for ext in ("lz4", "zst", "bz2"):
        p = os.path.join(d, "bad-garbage.records." + ext)
        open(p, "wb").write(bytes(range(200)))
        out["garbage." + ext] = (p, [])
    out["missing"] = (os.path.join(d, "does-not-exist.records"), [])
    _SRC[d] = out
    return out


def expected_pipeline(source_keys, srcs, selector, skip, count, rsource=None, rclass=None, fields=None, exclude=None, multi=False):
    """-> list of observation terms of the records rdump must write (None if undefined because of a damaged-body source)"""
    records = []
    for k in source_keys:
        specs = srcs[k][1]
        if specs is None:
            return None
        records += [recs.build_record(s) for s in specs]
    if selector:
        records = [r for r in records if refsel.evaluate_c08(selector, r) == ("value", True)]
    records = records[skip:]
    if count:
        records = records[:count]
    out = []
    for r in records:
        if rsource is not None:
            r._source = rsource
        if rclass is not None:
            r._classification = rclass
        fl = [(t, n) for t, n in r._desc.get_field_tuples()]
        if fields:
            names = [n for _, n in fl]
            keep = []
            for f in fields:
                if f in names and f not in (exclude or []) and f not in keep:
                    keep.append(f)
            fl = [(dict((n, t) for t, n in fl)[f], f) for f in keep]
        elif exclude:
            fl = [(t, n) for t, n in fl if n not in exclude]
        vals = {n: getattr(r, n) for _, n in fl}
        meta = {k: getattr(r, k) for k in ("_source", "_classification", "_generated")}
        if multi and any(t == "datetime" for t, _ in fl):
            for t, n in fl:
                if t != "datetime":
                    continue
                fl2 = [("datetime", "ts"), ("string", "ts_description")] + [(tt, nn) for tt, nn in fl if nn not in ("ts", "ts_description")]
                v2 = dict(vals)
                v2["ts"] = vals[n]
                v2["ts_description"] = n
                out.append(mk_obs(r._desc.name, fl2, v2, meta))
        else:
            out.append(mk_obs(r._desc.name, fl, vals, meta))
    return out


def mk_obs(name, fl, vals, meta):
    d = recs.descriptor(name, [[t, n] for t, n in fl])
    kw = {n: vals[n] for _, n in fl}
    kw.update(meta)
    return obs(d.recordType(**kw))


def run_grouped(case):
    """Grouped records through rdump (stream in, stream out), with and without the metadata overrides: the output is the input, except
    that an override lands where assignment through a grouped record lands - in the first member that has the field."""
    from flow.record import RecordReader, RecordWriter

    from mc.obs import obs

    h = jhash(case)
    d = scratch()
    _n[0] += 1
    src = os.path.join(d, "grp-%d.records" % _n[0])
    dst = os.path.join(d, "grp-%d-out.records" % _n[0])
    specs = [{"group": "t/g", "members": [A(1), B(2)]}, A(3), {"group": "t/g", "members": [B(4), A(5), B(6)]}, {"group": "t/g2", "members": [N(7)]}]
    w = RecordWriter(src)
    for sp in specs:
        w.write(recs.build_record(sp))
    w.close()
    argv = [src, "-w", dst]
    if case.get("rsource") is not None:
        argv += ["--record-source", case["rsource"]]
    if case.get("rclass") is not None:
        argv += ["--record-classification", case["rclass"]]
    if case.get("engine") == "interpreted":
        argv += ["-n"]
    viol = []
    try:
        rc, out, err = run_rdump(argv)
        want = []
        for sp in specs:
            r = recs.build_record(sp)
            if case.get("rsource") is not None:
                r._source = case["rsource"]
            if case.get("rclass") is not None:
                r._classification = case["rclass"]
            want.append(obs(r))
        try:
            rd = RecordReader(dst)
            got = [obs(r) for r in rd]
            rd.close()
        except Exception as e:  # noqa: BLE001
            got = None
            viol.append(("C16:grouped:output-unreadable:%s" % type(e).__name__, case, {"error": repr(e)[:200], "rc": repr(rc)[:80]}))
        if got is not None and got != want:
            i = next((i for i, (a, b) in enumerate(zip(got, want)) if a != b), min(len(got), len(want)))
            viol.append(("C16:grouped:records-differ:%s" % ("override" if case.get("rsource") is not None or case.get("rclass") is not None else "identity"), case,
                         {"index": i, "got": got[i] if i < len(got) else None, "want": want[i] if i < len(want) else None, "counts": [len(got), len(want)]}))
    finally:
        for p_ in (src, dst):
            try:
                os.unlink(p_)
            except OSError:
                pass
    return {"ev": 1, "h": h, "nt": True, "out": "grouped:%s" % ("ok" if not viol else "bad"), "viol": viol}


def run_case(case):
    if case["kind"] == "slice":
        return run_slice(case)
    if case["kind"] == "grouped":
        return run_grouped(case)
    return run_writer(case)


def scratch():
    d = os.path.join(os.environ["VERIF_SCRATCH"], "c16-src-%d" % os.getpid())
    os.makedirs(d, exist_ok=True)
    return d


def run_slice(case):
    from flow.record import RecordReader

    h = jhash(case)
    d = scratch()
    srcs = build_sources(d)
    _n[0] += 1
    outp = os.path.join(d, "out-%d.records" % _n[0])
    argv = [srcs[k][0] for k in case["sources"]]
    if case["selector"]:
        argv += ["-s", case["selector"]]
    if case["skip"]:
        argv += ["--skip", str(case["skip"])]
    if case["count"] is not None:
        argv += ["-c", str(case["count"])]
    if case["engine"] == "interpreted":
        argv += ["-n"]
    argv += ["-w", outp]
    viol = []
    want = expected_pipeline(case["sources"], srcs, case["selector"], case["skip"], case["count"])
    # with a damaged-body source the reference is defined for the part after it only
    tail_want = None
    if want is None:
        i = max(j for j, k in enumerate(case["sources"]) if srcs[k][1] is None)
        tail_want = expected_pipeline(case["sources"][i + 1:], srcs, case["selector"], 0, None)
    badcls = "+".join(sorted(k for k in case["sources"] if k in BAD)) or "none"
    pos = "bad-first" if case["sources"][0] in BAD else "bad-later" if badcls != "none" else "clean"
    try:
        rc, out, err = run_rdump(argv)
        if isinstance(rc, Exception):
            viol.append(("C16:slice:rdump-raises-%s:%s:%s" % (type(rc).__name__, badcls, pos), case, {"error": repr(rc)[:200], "argv": argv[len(case["sources"]):]}))
            return {"ev": 1, "h": h, "nt": True, "out": "slice:raise", "viol": viol}
        try:
            rd = RecordReader(outp)
            got, exc = drain(rd)
            rd.close()
        except Exception as e:  # noqa: BLE001
            got, exc = [], e
        if exc is not None and not (want == [] or (want is None and not tail_want)):
            viol.append(("C16:slice:output-unreadable:%s" % type(exc).__name__, case, {"error": repr(exc)[:200]}))
        ogot = obs_list(got)
        if want is not None:
            if ogot != want:
                dd = recs.list_diff(want, ogot)
                what = "count:%s" % ("fewer" if len(ogot) < len(want) else "more") if len(ogot) != len(want) else "values:%s" % (dd[3] if dd else "?")
                viol.append(("C16:slice:%s:%s:%s:%s%s" % (what, badcls, pos, case["engine"], ":sliced" if case["skip"] or case["count"] else ""), case,
                             {"got": len(ogot), "want": len(want), "argv": argv[len(case["sources"]):]}))
        elif tail_want and not (case["skip"] or case["count"]):
            if ogot[-len(tail_want):] != tail_want:
                viol.append(("C16:slice:later-sources-dropped:%s:%s" % (badcls, case["engine"]), case, {"got": len(ogot), "tail_want": len(tail_want)}))
    finally:
        if os.path.exists(outp):
            os.unlink(outp)
    return {"ev": 1, "h": h, "nt": badcls != "none" or bool(case["selector"]) or bool(case["skip"]) or case["count"] is not None,
            "out": "slice:%s:%s" % (pos, "ok" if not viol else "bad"), "viol": viol, "count": {"rdump_runs": 1, "runs_with_bad_source": 1 if badcls != "none" else 0},
            "sample": case if int(h, 16) % 1999 == 0 else None}


# ---- writer kinds ------------------------------------------------------------------------------------------------------

WRITERS = ["stream", "stream.gz", "jsonlines", "json", "csv", "line", "line-verbose", "text", "jsonfile-desc", "csvfile-uri", "sqlite", "split", "split-overflow", "avro"]


def jv(o):
    """obs value -> plain JSON value the JSON writer emits"""
    import base64
    import datetime as _d

    tag = o[0]
    if tag == "none":
        return None
    if tag == "str":
        return o[2]
    if tag == "int":
        return bool(o[2]) if len(o) > 3 and o[3][0] == "bool" else o[2]
    if tag == "float":
        import struct

        return struct.unpack(">d", bytes.fromhex(o[2]))[0]
    if tag == "bytes":
        return base64.b64encode(bytes.fromhex(o[2])).decode()
    if tag == "dt":
        y, mo, d, h, mi, s, us = o[2]
        return _d.datetime(y, mo, d, h, mi, s, us, tzinfo=_d.timezone(_d.timedelta(seconds=o[3]))).isoformat()
    if tag == "list":
        return [jv(x) for x in o[2]]
    if tag == "rec":
        dct = {k: jv(v) for k, v in o[3]}
        return dct
    if tag == "path":
        return o[3]
    return "<%s>" % tag


def run_writer(case):
    from flow.record import RecordReader

    h = jhash(case)
    d = scratch()
    srcs = build_sources(d)
    _n[0] += 1
    wk = case["writer"]
    viol = []
    base = os.path.join(d, "w-%d" % _n[0])
    os.makedirs(base)
    sources = case["sources"]
    argv = [srcs[k][0] for k in sources]
    fields, exclude = case["fields"], case["exclude"]
    if fields:
        argv += ["-F", ",".join(fields)]
    if exclude:
        argv += ["-X", ",".join(exclude)]
    if case["rsource"] is not None:
        argv += ["--record-source", case["rsource"]]
    if case["rclass"] is not None:
        argv += ["--record-classification", case["rclass"]]
    if case["multi"]:
        argv += ["--multi-timestamp"]
    if case.get("selector"):
        argv += ["-s", case["selector"]]
    outp = None
    if wk == "stream":
        outp = os.path.join(base, "o.records")
        argv += ["-w", outp]
    elif wk == "stream.gz":
        outp = os.path.join(base, "o.records.gz")
        argv += ["-w", outp]
    elif wk == "jsonlines":
        argv += ["-J"]
    elif wk == "json":
        argv += ["-j"]
    elif wk == "csv":
        argv += ["-C"]
    elif wk == "line":
        argv += ["-L"]
    elif wk == "line-verbose":
        argv += ["-Lv"]
    elif wk == "jsonfile-desc":
        outp = os.path.join(base, "o.json")
        argv += ["-w", "jsonfile://" + outp + "?descriptors=true"]
    elif wk == "csvfile-uri":
        outp = os.path.join(base, "o.csv")
        argv += ["-w", "csvfile://" + outp]
    elif wk == "sqlite":
        outp = os.path.join(base, "o.sqlite")
        argv += ["-w", "sqlite://" + outp]
    elif wk == "split":
        outp = os.path.join(base, "o.records")
        argv += ["-w", outp, "--split", "3"]
    elif wk == "split-overflow":  # more parts than the suffix length can count
        outp = os.path.join(base, "o.records")
        argv += ["-w", outp, "--split", "1", "--suffix-length", "1"]
    elif wk == "avro":
        outp = os.path.join(base, "o.avro")
        argv += ["-w", outp]
    want = expected_pipeline(sources, srcs, case.get("selector"), 0, None, case["rsource"], case["rclass"], fields, exclude, case["multi"])
    label = "%s:%s%s%s" % (wk, "F" if fields else "", "X" if exclude else "", "M" if case["multi"] else "")
    try:
        rc, out, err = run_rdump(argv)
        if isinstance(rc, Exception):
            mixed = wk == "avro" and len({w[1] + repr(w[2]) for w in want}) > 1
            if not mixed:
                viol.append(("C16:writer:%s:rdump-raises-%s" % (label, type(rc).__name__), case, {"error": repr(rc)[:300], "argv": argv[len(sources):]}))
            return {"ev": 1, "h": h, "nt": True, "out": "writer:%s:raise" % wk, "viol": viol}
        text = out.decode("utf-8", "surrogateescape")
        n_want = len(want)
        got_ids = None
        # identity of a record in every output kind: (type name if available, n or ts_description+n)
        def ident(o):
            sl = dict((k, v) for k, v in o[3])
            return (sl["n"][2] if "n" in sl and sl["n"][0] == "int" else None, sl["ts_description"][2] if "ts_description" in sl else None)

        want_ids = [ident(o) for o in want]
        if wk in ("stream", "stream.gz", "jsonfile-desc", "split", "split-overflow", "avro", "sqlite"):
            import re as _re

            files = sorted(os.listdir(base), key=lambda f: [int(x) if x.isdigit() else x for x in _re.split(r"(\d+)", f)])
            got = []
            for f in files:
                uri = os.path.join(base, f)
                if wk == "sqlite":
                    uri = "sqlite://" + uri
                rd = RecordReader(uri)
                g, exc = drain(rd)
                rd.close()
                if exc is not None:
                    viol.append(("C16:writer:%s:output-unreadable-%s" % (label, type(exc).__name__), case, {"file": f, "error": repr(exc)[:200]}))
                got += g
            if wk in ("stream", "stream.gz", "jsonfile-desc", "split", "split-overflow"):
                ogot = obs_list(got)
                if wk == "jsonfile-desc":
                    # JSON carries no path flavour / nested descriptors the same way: compare on identity + field lists
                    if [(o[1], o[2]) for o in ogot] != [(o[1], o[2]) for o in want] or [ident(o) for o in ogot] != want_ids:
                        viol.append(("C16:writer:%s:records-differ" % label, case, {"got": len(ogot), "want": n_want}))
                elif ogot != want:
                    dd = recs.list_diff(want, ogot)
                    viol.append(("C16:writer:%s:records-differ:%s" % (label, dd[3] if dd else "?"), case, {"got": len(ogot), "want": n_want, "where": dd[1] if dd else None}))
            else:
                got_ids = [(int(r.n) if getattr(r, "n", None) is not None else None, getattr(r, "ts_description", None)) for r in got]
                got_ids = [(a, None if b is None else str(b)) for a, b in got_ids]
                if sorted(map(repr, got_ids)) != sorted(map(repr, want_ids)):
                    viol.append(("C16:writer:%s:records-differ" % label, case, {"got": got_ids[:6], "want": want_ids[:6]}))
        elif wk in ("jsonlines", "json"):
            dec = json.JSONDecoder()
            docs = []
            pos = 0
            while pos < len(text):
                while pos < len(text) and text[pos] in " \r\n\t":
                    pos += 1
                if pos >= len(text):
                    break
                doc, pos = dec.raw_decode(text, pos)
                docs.append(doc)
            if len(docs) != n_want:
                viol.append(("C16:writer:%s:count" % label, case, {"got": len(docs), "want": n_want}))
            else:
                for doc, o in zip(docs, want):
                    exp = {k: jv(v) for k, v in o[3]}
                    if doc != exp:
                        bad = [k for k in set(doc) | set(exp) if doc.get(k, "<absent>") != exp.get(k, "<absent>")]
                        viol.append(("C16:writer:%s:document-differs:%s" % (label, "keys" if set(doc) != set(exp) else "values"), case, {"fields": bad[:4], "got": {k: doc.get(k) for k in bad[:3]},
                                                                                                                                  "want": {k: exp.get(k) for k in bad[:3]}}))
                        break
        elif wk in ("csv", "csvfile-uri"):
            if wk == "csvfile-uri":
                text = open(outp, newline="").read()
            rows = list(csv.reader(io.StringIO(text, newline="")))
            exp_rows = []
            prev = None
            full_names = {}
            for o in want:
                names = [k for k, _ in o[3]]
                allnames = [k for k in names if not k.startswith("_")]
                if fields:
                    names = [f for f in fields if f in names and f not in (exclude or [])]
                elif exclude:
                    names = [k for k in names if k not in exclude]
                key = (o[1], tuple(map(tuple, o[2])))
                full_names[id(names)] = allnames
                if key != prev:
                    exp_rows.append(("H", names))
                    prev = key
                exp_rows.append(("R", names))
            META = ("_source", "_classification", "_generated", "_version")
            cur = None
            if len(rows) != len(exp_rows):
                viol.append(("C16:writer:%s:row-count" % label, case, {"got": len(rows), "want": len(exp_rows)}))
            else:
                for r, (kind, names) in zip(rows, exp_rows):
                    # whether metadata columns are shown depends on the way the writer was selected; the declared fields must match
                    if kind == "H":
                        cur = r
                        shown = [c for c in r if c not in META]
                        bad = shown != [c for c in names if c not in META] and shown != full_names.get(id(names))
                    else:
                        bad = cur is None or len(r) != len(cur)
                    if bad:
                        viol.append(("C16:writer:%s:%s-row" % (label, "header" if kind == "H" else "data"), case, {"got": r[:8], "want": names[:8]}))
                        break
        elif wk in ("line", "line-verbose"):
            blocks = text.split("--[ RECORD ")[1:]
            if len(blocks) != n_want:
                viol.append(("C16:writer:%s:count" % label, case, {"got": len(blocks), "want": n_want}))
            else:
                for i, (b, o) in enumerate(zip(blocks, want), start=1):
                    names = [k for k, _ in o[3]]
                    if fields:
                        names = [f for f in fields if f in names and f not in (exclude or [])]
                    elif exclude:
                        names = [k for k in names if k not in exclude]
                    keys = [ln.split(" = ")[0].strip().split(" ")[0] for ln in b.split("\n")[1:] if " = " in ln]
                    META = ("_source", "_classification", "_generated", "_version")
                    shown = [k for k in keys if k not in META]
                    if not b.startswith("%d ]--" % i) or (shown != [k for k in names if k not in META] and shown != [k for k, _ in o[3] if k not in META]):
                        viol.append(("C16:writer:%s:block" % label, case, {"block": i, "keys": keys[:8], "want": names[:8]}))
                        break
        else:  # text
            lines = text.splitlines()
            if len(lines) != n_want:
                viol.append(("C16:writer:%s:count" % label, case, {"got": len(lines), "want": n_want}))
            else:
                for ln, o in zip(lines, want):
                    if not ln.startswith("<%s " % o[1]) or any((" %s=" % n) not in ln for _, n in o[2]):
                        viol.append(("C16:writer:%s:line" % label, case, {"line": ln[:120], "want_fields": o[2]}))
                        break
    finally:
        shutil.rmtree(base, ignore_errors=True)
    seen = set()
    v2 = [v for v in viol if not (v[0] in seen or seen.add(v[0]))]
    return {"ev": 1, "h": h, "nt": bool(fields or exclude or case["multi"] or case["rsource"]), "out": "writer:%s:%s" % (wk, "ok" if not v2 else "bad"), "viol": v2,
            "count": {"rdump_runs": 1}, "sample": case if int(h, 16) % 499 == 0 else None}


def grouped_cases():
    for rsource, rclass in ((None, None), ("over-src", None), (None, "over-cls"), ("over-src", "over-cls"), ("", "")):
        for engine in ("compiled", "interpreted"):
            yield {"kind": "grouped", "rsource": rsource, "rclass": rclass, "engine": engine}


def cases(tier, seed):
    yield from grouped_cases()
    thorough = tier == "thorough"
    goods = ["G1", "G2", "G3", "G0", "G5"]
    maxlen = 3 if thorough else 2
    maxbad = 2 if thorough else 1
    lists = []
    for k in range(1, maxlen + 1):
        for combo in itertools.product(goods + BAD, repeat=k):
            nb = sum(1 for c in combo if c in BAD)
            if nb > maxbad:
                continue
            if k == 3 and not thorough:
                continue
            lists.append(list(combo))
    slices = [(0, None), (1, None), (3, 0), (0, 1), (3, 3), (8, 100), (20, None), (0, 3), (1, 1)]
    for src in lists:
        for sel in SELECTORS:
            for engine in ("compiled", "interpreted"):
                for skip, count in (slices if (len(src) == 1 or all(s in goods for s in src)) else slices[:5]):
                    yield {"kind": "slice", "sources": src, "selector": sel, "engine": engine, "skip": skip, "count": count}
    for src in (["G6"], ["G6", "G3"], ["G3", "G6"], ["G6", "torn"], ["boundary", "G6"], ["G6", "G6"]):
        for sel in SELECTORS + ["r.a == 'plain61'", "Type.string == 'b62'", "r.listb == 'lb63' or r.b == 'b60'"]:
            if sel and "str(r.n)" in sel:
                continue  # the text form of a field these types do not have is not a comparison of a missing field: no pinned meaning
            for engine in ("compiled", "interpreted"):
                for skip, count in slices[:5]:
                    yield {"kind": "slice", "sources": src, "selector": sel, "engine": engine, "skip": skip, "count": count}
    names = ["s", "n", "_source", "zz", "ts"]
    fl = [[]] + [list(p) for k in (1, 2) for p in itertools.permutations(names, k)]
    for writer in WRITERS:
        for fields in fl:
            for exclude in ([], ["n"], ["_source", "seen"], ["s", "zz"]):
                if fields and exclude and len(fields) == 2 and exclude != ["n"]:
                    continue
                for multi in (False, True):
                    for rsource, rclass in ((None, None), ("over", "ridden")):
                        if rsource and (fields or exclude) and writer not in ("stream", "jsonlines"):
                            continue
                        srcs = ["G3", "G4", "G5"] if writer != "avro" else ["G0", "G3"]
                        yield {"kind": "writer", "writer": writer, "sources": srcs, "fields": fields, "exclude": exclude, "multi": multi, "rsource": rsource, "rclass": rclass,
                               "selector": "name(r) == 't/a'" if writer == "avro" else None}


def main(tier, seed, workers=None):
    run = Run(PROP, "fault_enumeration", tier, seed, RULE)
    run.assumptions = ["--count 0 means no limit (pinned by the project's own regression test)",
                       "the intact prefix of a source whose compressed body is damaged is not defined: only the sources after it are judged"]
    explore(run, cases(tier, seed), run_case, workers, chunk=32)
    return run.finish(lambda case: [v[0] for v in run_case(case)["viol"]])
