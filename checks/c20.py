"""C20 — text-oriented writers render every record completely (CSV / line / text writers; CSV reading)."""
from __future__ import annotations

import csv
import io
import itertools
import os

from mc import recs
from mc.alphabets import LISTABLE, TYPE_ALPHABET, alphabet
from mc.faults import drain
from mc.recs import rs
from mc.report import Run, jhash
from mc.space import explore

PROP = "C20"
RULE = ("every whitelisted type (scalar and list) x value alphabet as a 2-field record next to a string cell drawn from the cell "
        "alphabet (delimiters, quotes, line breaks, unicode, undecodable bytes, formula, NUL, long); all sequences <=4 over {A, B, A2}; "
        "x CSV options (fields/exclude subsets, 4 line terminators), line writer (verbose, fields/exclude), text writer (default and 6 "
        "format specs); output recovered by Python's csv module / a block parser and compared with the text form of each value; CSV "
        "reading over 4 delimiters x header shapes x safe cells. non-trivial = record accepted by its constructors")

CELLS = ["''", "'a'", "'a,b'", "'a;b'", "'a|b'", "'a\\tb'", "'q\"uote'", "'\"\"'", "'l\\nf'", "'cr\\rx'", "'crlf\\r\\nx'", "' lead'", "'trail '",
         "'\\xe9\\u20ac\\U0001f600'", "'\\udc80'", "'=1+1'", "'a\\x00b'", "S('z', 300)", "None", "'\\''", "'#c'", "'a\\\\b'"]
_n = [0]
TIER = ["quick"]


def small(v):
    return not (v.startswith("S(") and ("65535" in v or "65536" in v))


def cases(tier, seed):
    types = list(TYPE_ALPHABET.keys())
    for t in types:
        for v in alphabet(t, seed):
            if small(v):
                yield {"kind": "value", "t": t, "records": [rs("x/v", [[t, "v"], ["string", "c"]], [v, "'cell'"])]}
    for t in LISTABLE:
        al = [v for v in alphabet(t, seed, with_none=False) if small(v)][:5]
        for a in ["None", "[]"] + ["[%s]" % x for x in al] + ["[%s, %s]" % (al[0], al[-1])]:
            yield {"kind": "value", "t": t + "[]", "records": [rs("x/v", [[t + "[]", "v"], ["string", "c"]], [a, "'cell'"])]}
    for c in CELLS:
        for c2 in (CELLS if tier == "thorough" else CELLS[:8]):
            yield {"kind": "cell", "t": "string", "records": [rs("x/c", [["string", "c"], ["string", "d"], ["varint", "n"]], [c, c2, "7"])]}
    A = rs("x/a", [["string", "s"], ["varint", "n"]], ["'a,1'", "1"])
    B = rs("x/b", [["string", "t"], ["path", "p"], ["string", "s"]], ["'b\\n2'", "'/p'", "'sb'"])
    A2 = rs("x/a", [["string", "s"], ["varint", "n"], ["string", "extra"]], ["'a2'", "2", "'e'"])
    E0 = rs("x/empty", [], [], _source="'meta'")
    shapes = {"A": A, "B": B, "A2": A2}
    for seq in (["E0"], ["E0", "E0"], ["E0", "A", "E0"], ["A", "E0", "E0", "B"]):
        yield {"kind": "seq", "t": "seq", "shape": seq, "records": [dict(shapes, E0=E0)[x] for x in seq]}
    XA = dict(rs("x/a", [["string", "s"], ["varint", "n"]], ["chr(0xd800)", "3"]), xfail=True)  # cannot be encoded: the write raises
    XB = dict(rs("x/b", [["string", "t"], ["path", "p"], ["string", "s"]], ["'t'", "'/p'", "chr(0xdfff)"]), xfail=True)
    xshapes = {"A": A, "B": B, "XA": XA, "XB": XB}
    for k in (1, 2, 3):
        for seq in itertools.product(xshapes, repeat=k):
            if any(x.startswith("X") for x in seq):
                yield {"kind": "seq", "t": "refused-seq", "shape": list(seq), "records": [xshapes[x] for x in seq]}
    for k in (1, 2, 3, 4):
        for seq in itertools.product(shapes, repeat=k):
            yield {"kind": "seq", "t": "seq", "shape": list(seq), "records": [shapes[s] for s in seq]}
            if k <= 3:
                # the same records coming from different sources: equal descriptors that are distinct objects
                yield {"kind": "seq", "t": "seq", "shape": list(seq), "records": [shapes[s] for s in seq], "fresh_descriptors": True}
    # grouped records of different composition through one writer (they all share one Python class)
    GA = {"group": "x/g", "members": [A, rs("x/m", [["varint", "port"]], ["80"])]}
    GB = {"group": "x/g", "members": [rs("x/h", [["string", "host"]], ["'h'"]), B]}
    # equal flat descriptors (group name, field list) built from different member layouts
    GH = {"group": "x/g2", "members": [rs("x/h", [["string", "host"]], ["'h1'"]), rs("x/m", [["varint", "port"]], ["80"])]}
    GHP = {"group": "x/g2", "members": [rs("x/hp", [["string", "host"], ["varint", "port"]], ["'h2'", "443"])]}
    gshapes = {"GA": GA, "GB": GB, "A": A, "GH": GH, "GHP": GHP}
    for k in (1, 2, 3):
        for seq in itertools.product(gshapes, repeat=k):
            if any(s.startswith("G") for s in seq):
                yield {"kind": "seq", "t": "grouped-seq", "shape": list(seq), "records": [gshapes[s] for s in seq]}
    for delim, header, rows in itertools.product([",", ";", "\t", "|"],
                                                 [["a", "b"], ["my col", "b-c"], ["x(y)", "n"], ["1st", "_hid", "ok"], ["A", "a2", "c"]],
                                                 [[["v1", "v2", "v3"], ["w1", "w2", "w3"]], [["1", "2", "3"], ["x y", "z", "q"], ["e", "f", "g"]],
                                                  # rows whose cells are all empty are rows too (a record with nothing set in the selected fields)
                                                  [["v1", "v2", "v3"], ["", "", ""], ["w1", "w2", "w3"]], [["a", "", ""], ["", "", ""], ["", "", ""]]]):
        yield {"kind": "csvread", "t": "csvread", "delim": delim, "header": header, "rows": [r[: len(header)] for r in rows]}
    for delim in (",", ";"):
        for cell in ("two\r\nlines", "bare\rreturn", "unix\nbreak", "mixed\r\n\n\rend", " spaces "):  # (quotes and delimiters inside cells make the dialect sniffing ambiguous: not "safe" content)
            yield {"kind": "csvread", "t": "csvread-quoted", "delim": delim, "header": ["a", "b", "c"], "quoted": True,
                   "rows": [["first", cell, "last"], ["x", "plain", "z"], ["p", cell + cell, "q"]]}
    # files longer than the 1 KiB (4 KiB, 8 KiB) a reader may look at first: the first row is padded one character at a time so that
    # a row end - and each half of a CRLF - falls on every offset around the edge
    for edge in (1024, 4096, 8192) + ((65536,) if tier == "thorough" else ()):
        nrows = edge // 13 + 12
        for shift in range(0, 16):
            for term in ("\r\n", "\n"):
                rows = [["p" * shift + "v0", "w", "x"]] + [["v%03d" % (i % 1000), "w%d" % (i % 10), "xyz"] for i in range(nrows)]
                yield {"kind": "csvread", "t": "csvread-long", "delim": ",", "header": ["a", "b", "c"], "rows": rows, "term": term}
    # the headerless door: column names from the caller, every row of the file is data - also a first row that "looks like" a header
    for delim, door in itertools.product([",", ";"], ["uri", "kw"]):
        for rows in ([["unknown", "n/a", "-"], ["web01", "20", "up"], ["web02", "30", "up"], ["web03", "40", "down"]],
                     [["host", "port", "state"], ["web01", "20", "up"], ["web02", "30", "up"]], [["1", "2", "3"], ["4", "5", "6"]],
                     [["name", "count", "ok"], ["a", "1", "x"], ["b", "22", "y"], ["c", "333", "z"], ["d", "4444", "w"]], [["only", "one", "row"]]):
            yield {"kind": "csvread", "t": "csvread-headerless", "delim": delim, "header": ["c1", "c2", "c3"], "rows": rows, "headerless": door}


def slot_names(r):
    """All field names of a record in output order; for a grouped record the union over its members, first occurrence wins."""
    if hasattr(r, "records") and hasattr(r, "fieldname_to_record"):
        out = []
        for m in r.records:
            for k in m.__slots__:
                if k not in out:
                    out.append(k)
        return out
    return list(r.__slots__)


def field_types(r):
    members = r.records if hasattr(r, "records") and hasattr(r, "fieldname_to_record") else [r]
    types = {}
    for m in members:
        for ft_, fn in m._desc.get_field_tuples():
            types.setdefault(fn, ft_)
    types.update({"_source": "string", "_classification": "string", "_generated": "datetime", "_version": "varint"})
    return types


def textform(v):
    return "" if v is None else str(v)


def read_file(path):
    with open(path, "rb") as f:
        return f.read()


def csv_check(records, fields, exclude, lt, case, viol):
    from flow.record import RecordWriter

    d = os.environ["VERIF_SCRATCH"]
    _n[0] += 1
    p = os.path.join(d, "c20-%d-%d.csv" % (os.getpid(), _n[0]))
    kw = {}
    if fields is not None:
        kw["fields"] = ",".join(fields)
    if exclude is not None:
        kw["exclude"] = ",".join(exclude)
    if lt is not None:
        kw["lineterminator"] = lt
    label = "csv"
    try:
        try:
            xf = {i for i, sp in enumerate(case["records"]) if sp.get("xfail")}
            accepted_x = set()
            w = RecordWriter("csvfile://" + p, **kw)
            for i, r in enumerate(records):
                if i in xf:
                    # a record the writer cannot encode: write() raises, the caller skips the record and carries on
                    # (with the offending field projected away the record is writable: then its row is expected)
                    try:
                        w.write(r)
                        accepted_x.add(i)
                    except (UnicodeError, ValueError):
                        pass
                else:
                    w.write(r)
            w.flush()
            w.close()
        except Exception as e:  # noqa: BLE001
            viol.append(("C20:csv:raises-%s:%s" % (type(e).__name__, case["t"] if case["kind"] != "cell" else "cell"), case, {"error": repr(e)[:200], "options": kw}))
            return "raise"
        text = read_file(p).decode("utf-8", "surrogateescape")
        rows = list(csv.reader(io.StringIO(text, newline="")))
        # expected rows
        want = []
        prev = None
        header = None
        for i, r in enumerate(records):
            names = [k for k in (fields if fields else slot_names(r)) if k in slot_names(r) and not (exclude and k in exclude)]
            if prev is None or prev != (r._desc.name, tuple(r._desc.get_field_tuples())):
                want.append(list(names))
                header = list(names)
                prev = (r._desc.name, tuple(r._desc.get_field_tuples()))
            elif header is not None and sorted(header) == sorted(names):
                names = header  # same record type, another member layout (grouped records): the cells stand under the header's columns
            if i in xf and i not in accepted_x:
                continue  # its header may stand (the type was announced), its row may not
            want.append([textform(getattr(r, k)) for k in names])
        real_lt = (lt or "\r\n").replace("\\r", "\r").replace("\\n", "\n").replace("\\t", "\t")
        if rows != want:
            i = next((i for i, (a, b) in enumerate(zip(rows, want)) if a != b), min(len(rows), len(want)))
            lb = {c for r in records for k in slot_names(r) for c in textform(getattr(r, k)) if c in "\r\n"}
            if lb and not lb <= set(real_lt):
                kind0 = "linebreak-char-not-in-lineterminator"
            else:
                kind0 = None
            kind = kind0 or "header" if i < len(want) and want[i] and all(isinstance(x, str) for x in want[i]) and i < len(rows) and len(rows[i]) != len(want[i]) else "cells"
            viol.append(("C20:csv:not-recovered:%s" % (kind0 or (kind if len(rows) == len(want) else "rowcount")), case,
                         {"row": i, "got": rows[i] if i < len(rows) else None, "want": want[i] if i < len(want) else None, "options": kw, "rows": [len(rows), len(want)]}))
            return "diff"
        if text and not text.endswith(real_lt):
            viol.append(("C20:csv:line-terminator", case, {"options": kw, "tail": repr(text[-6:])}))
        return "ok"
    finally:
        try:
            os.unlink(p)
        except OSError:
            pass


def line_check(records, fields, exclude, verbose, case, viol):
    from flow.record import RecordWriter

    d = os.environ["VERIF_SCRATCH"]
    _n[0] += 1
    p = os.path.join(d, "c20-%d-%d.txt" % (os.getpid(), _n[0]))
    kw = {}
    if fields is not None:
        kw["fields"] = ",".join(fields)
    if exclude is not None:
        kw["exclude"] = ",".join(exclude)
    if verbose:
        kw["verbose"] = True
    try:
        try:
            w = RecordWriter("line://" + p, **kw)
            for r in records:
                w.write(r)
            w.flush()
            w.close()
        except Exception as e:  # noqa: BLE001
            viol.append(("C20:line:raises-%s:%s" % (type(e).__name__, case["t"] if case["kind"] != "cell" else "cell"), case, {"error": repr(e)[:200], "options": kw}))
            return "raise"
        text = read_file(p).decode("utf-8", "surrogateescape")
        # expected text, block by block (values may span lines: compare the exact block text)
        pos = 0
        for i, r in enumerate(records, start=1):
            names = [k for k in (fields if fields else slot_names(r)) if k in slot_names(r) and not (exclude and k in exclude)]
            head = "--[ RECORD %d ]--\n" % i
            if not text.startswith(head, pos):
                viol.append(("C20:line:block-header", case, {"record": i, "at": text[pos:pos + 40], "options": kw}))
                return "diff"
            pos += len(head)
            types = field_types(r)
            for k in names:
                key = "%s (%s)" % (k, types[k]) if verbose else k
                val = "{}".format(getattr(r, k))
                # the line is "<right-aligned key> = <value>\n"
                nl = text.find(" = ", pos)
                got_key = text[pos:nl].strip() if nl >= 0 else None
                want_tail = " = " + val + "\n"
                if got_key != key or not text.startswith(want_tail, nl):
                    viol.append(("C20:line:field-line", case, {"record": i, "field": k, "got": text[pos:pos + 80], "want": key + want_tail[:60], "options": kw}))
                    return "diff"
                pos = nl + len(want_tail)
        if pos != len(text):
            viol.append(("C20:line:trailing-output", case, {"extra": text[pos:pos + 80], "options": kw}))
            return "diff"
        return "ok"
    finally:
        try:
            os.unlink(p)
        except OSError:
            pass


class _DM(dict):
    def __missing__(self, key):
        return "{" + key + "}"


def text_check(records, spec, case, viol):
    from flow.record import RecordWriter

    d = os.environ["VERIF_SCRATCH"]
    _n[0] += 1
    p = os.path.join(d, "c20-%d-%d.text" % (os.getpid(), _n[0]))
    kw = {}
    if spec is not None:
        kw["format_spec"] = spec
        real0 = spec.replace("\\r", "\r").replace("\\n", "\n").replace("\\t", "\t")
        for r in records:
            try:
                real0.format_map(_DM({k: getattr(r, k) for k in r.__slots__}))
            except Exception:  # noqa: BLE001  the template itself is not applicable to this record (e.g. [0] of an empty value)
                return "spec-not-applicable"
    try:
        try:
            w = RecordWriter("text://" + p, **kw)
            for r in records:
                w.write(r)
            w.flush()
            w.close()
        except Exception as e:  # noqa: BLE001
            viol.append(("C20:text:raises-%s:%s:%s" % (type(e).__name__, "repr" if spec is None else "spec", case["t"] if case["kind"] != "cell" else "cell"), case,
                         {"error": repr(e)[:200], "options": kw}))
            return "raise"
        data = read_file(p)
        want = b""
        for r in records:
            if spec is None:
                # the record's printable representation: <name k=repr(v) ...> over the declared fields
                s = "<%s %s>" % (r._desc.name, " ".join("%s=%r" % (fn, getattr(r, fn)) for _, fn in r._desc.get_field_tuples()))
            else:
                real = spec.replace("\\r", "\r").replace("\\n", "\n").replace("\\t", "\t")
                try:
                    s = real.format_map(_DM({k: getattr(r, k) for k in r.__slots__}))
                except Exception:  # noqa: BLE001  the template itself is not applicable to this record (e.g. [0] of an empty value)
                    return "spec-not-applicable"
            want += s.encode("utf-8", "surrogateescape") + b"\n"
        if data != want:
            viol.append(("C20:text:output-differs:%s" % ("repr" if spec is None else "spec"), case, {"got": repr(data[:120]), "want": repr(want[:120]), "options": kw}))
            return "diff"
        return "ok"
    finally:
        try:
            os.unlink(p)
        except OSError:
            pass


def norm_name(n):
    import re

    n = re.sub(r"[- ()]", "_", n)
    if len(n) == 0 or n.startswith("_") or n[0].isdecimal():
        n = "x_" + n
    return n


def csvread_check(case, viol):
    from flow.record import RecordReader

    d = os.environ["VERIF_SCRATCH"]
    _n[0] += 1
    p = os.path.join(d, "c20r-%d-%d.csv" % (os.getpid(), _n[0]))
    try:
        with open(p, "w", newline="") as f:
            if case.get("quoted"):
                # cells with line breaks: the file is written by Python's csv module (quoted), the reader must hand every cell back as it is
                wr = csv.writer(f, delimiter=case["delim"], lineterminator="\r\n")
                wr.writerow(case["header"])
                wr.writerows(case["rows"])
            else:
                term = case.get("term", "\r\n")
                if not case.get("headerless"):
                    f.write(case["delim"].join(case["header"]) + term)
                for row in case["rows"]:
                    f.write(case["delim"].join(row) + term)
        try:
            if case.get("headerless") == "uri":
                # no header row in the file: the column names are given by the caller
                rd = RecordReader("csvfile://" + p + "?fields=" + ",".join(case["header"]))
            elif case.get("headerless") == "kw":
                rd = RecordReader("csvfile://" + p, fields=",".join(case["header"]))
            else:
                rd = RecordReader(p)
            got, exc = drain(rd)
            rd.close()
        except Exception as e:  # noqa: BLE001
            got, exc = [], e
        if exc is not None:
            viol.append(("C20:csvread:raises-%s" % type(exc).__name__, case, {"error": repr(exc)[:200]}))
            return "raise"
        names = [norm_name(h) for h in case["header"]]
        if len(got) != len(case["rows"]):
            viol.append(("C20:csvread:rowcount", case, {"got": len(got), "want": len(case["rows"])}))
            return "diff"
        for g, row in zip(got, case["rows"]):
            for n, v in zip(names, row):
                if n.startswith("_"):
                    continue
                if not hasattr(g, n) or str(getattr(g, n)) != v:
                    viol.append(("C20:csvread:value", case, {"field": n, "got": repr(getattr(g, n, None)), "want": v}))
                    return "diff"
        return "ok"
    finally:
        try:
            os.unlink(p)
        except OSError:
            pass


def run_case(case):
    h = jhash(case)
    viol = []
    outs = []
    if case["kind"] == "csvread":
        o = csvread_check(case, viol)
        return {"ev": 1, "h": h, "nt": True, "out": "csvread:" + o, "viol": viol}
    try:
        recs.FRESH_DESCRIPTORS[0] = bool(case.get("fresh_descriptors"))
        try:
            records = [recs.build_record(r) for r in case["records"]]
        finally:
            recs.FRESH_DESCRIPTORS[0] = False
    except Exception as e:  # noqa: BLE001
        return {"ev": 1, "h": h, "nt": False, "out": "rejected:" + type(e).__name__}
    first = case["records"][0]
    names0 = [f[1] for f in first["fields"]] if "fields" in first else [n for _, n in records[0]._desc.get_field_tuples()]
    names0 = names0 or ["_source"]  # a field-less first record: the option sets select among the metadata fields
    n = 0
    csv_opts = [(None, None, None)]
    line_opts = [(None, None, False), (None, None, True)]
    specs = [None]
    if case["kind"] in ("cell", "seq") or int(h, 16) % 4 == 0 or TIER[0] == "thorough":
        csv_opts += [([names0[0]], None, None), (names0[::-1], None, "\\n"), (None, [names0[0]], "\\r\\n"), (names0 + ["zz"], ["_generated"], "\n"),
                     (["_source", names0[-1]], [names0[-1]], None), (None, ["_source", "_classification", "_generated", "_version"], "\\r")]
        line_opts += [([names0[0]], None, False), (None, [names0[0]], True), (names0 + ["zz"], ["_version"], False),
                      # selections that leave some (or every) record without any field, plain and verbose
                      ([names0[0]], None, True), (["zz"], None, True), (["zz"], None, False), (["extra", "p"], None, True),
                      (None, names0 + ["extra", "t", "p", "s", "n", "_source", "_classification", "_generated", "_version"], True)]
        specs += ["{%s}" % names0[0], "{%s}-{%s}" % (names0[0], names0[-1]), "{zz}", "{%s!r}" % names0[0], "a\\t{%s}\\n" % names0[0], "{_source}|{%s}" % names0[-1],
                  "{%s.real}/{%s[0]}" % (names0[-1], names0[0]), "{%s[0]}" % names0[0], "{_generated.year}-{%s.imag}" % names0[-1], "{%s.denominator:>4}" % names0[-1],
                  "\u2192 {%s}\\t\u20ac" % names0[0], "\xe9\\n{%s}\\r\U0001f600" % names0[0], "caf\xe9 {%s}" % names0[0], "\\x41{%s}\\u0042" % names0[0]]
    for f, x, lt in csv_opts:
        n += 1
        outs.append("csv:" + csv_check(records, f, x, lt, case, viol))
    if case["t"] == "refused-seq":
        line_opts, specs = [], []  # refused writes are judged for the CSV writer (header bookkeeping); the others have no state to lose
    for f, x, vb in line_opts:
        n += 1
        outs.append("line:" + line_check(records, f, x, vb, case, viol))
    for sp in specs:
        if case["t"] == "grouped-seq":
            break  # the printable representation of a grouped record is its member list: not a field rendering
        n += 1
        outs.append("text:" + text_check(records, sp, case, viol))
    seen = set()
    v2 = [v for v in viol if not (v[0] in seen or seen.add(v[0]))]
    return {"ev": n, "h": h, "nt": True, "out": sorted(set(outs)), "viol": v2, "sample": case if int(h, 16) % 499 == 0 else None}


def main(tier, seed, workers=None):
    TIER[0] = tier
    run = Run(PROP, "exploration", tier, seed, RULE)
    run.assumptions = ["the text form of a value is str(value) ('' for None in CSV); the printable representation of a record is "
                       "<name field=repr(value) ...>", "option sets beyond the default are applied to cell/sequence cases and to a quarter of the value cases"]
    explore(run, cases(tier, seed), run_case, workers, chunk=16, reversed_pass=(tier == "thorough"))
    return run.finish(lambda case: [v[0] for v in run_case(case)["viol"]])
