"""C06 — descriptor names are validated; untrusted definitions cannot inject code."""
from __future__ import annotations

import ast
import io
import itertools
import json
import keyword
import os
import warnings

from mc import refcodec
from mc.faults import drain
from mc.report import Run, jhash
from mc.space import explore

PROP = "C06"
RULE = ("ALL strings of length 0..3 (4 thorough) over a 16-character alphabet as record type name and as field name, every "
        "valid-stem + character / character + valid-stem affix over the alphabet and all ASCII control characters, ~80 hostile payloads, "
        "all Python keywords, identifiers of the class template, long names, and ~60 field-type strings, each delivered through the "
        "constructor, a crafted descriptor frame, a JSON descriptor line and (reduced set) Avro schemas; oracle = hand-written "
        "recogniser + shape of the accepted class + AST allow-list on every generated source + import log + tripwires. "
        "non-trivial = candidate the recogniser rejects")

GAMMA = ["a", "Z", "0", "_", "/", "\n", " ", ".", "(", "\"", ":", "-", "\x00", "\u00e9", "\u0661", "\uff41"]
RESERVED = ["_source", "_classification", "_generated", "_version"]
WHITELIST = ["boolean", "command", "dynamic", "datetime", "filesize", "uint16", "uint32", "float", "string", "stringlist", "dictlist", "unix_file_mode",
             "varint", "wstring", "net.ipv4.Address", "net.ipv4.Subnet", "net.tcp.Port", "net.udp.Port", "uri", "digest", "bytes", "record", "net.ipaddress",
             "net.ipnetwork", "net.IPAddress", "net.IPNetwork", "path"]
TEMPLATE_IDS = {"Record", "None", "RECORD_VERSION", "_RECORD_VERSION", "_utcnow", "_zip_longest", "__self", "__cls", "args", "kwargs", "k", "v", "f", "values", "setattr", "dict",
                "_desc", "_field_types", "__slots__", "__init__", "_unpack", "classmethod", "type", "default", "get", "__slots__"}
TRIP = "/dev/shm/c06-pwned-%d"
EXEC_LOG = []
IMPORT_LOG = []


# ---- the recogniser: a character loop, no regular expressions -------------------------------------------------------------

def is_ident(s):
    if not s:
        return False
    c = s[0]
    if not ("a" <= c <= "z" or "A" <= c <= "Z"):
        return False
    for c in s[1:]:
        if not ("a" <= c <= "z" or "A" <= c <= "Z" or "0" <= c <= "9" or c == "_"):
            return False
    return True


def valid_type_name(s):
    return isinstance(s, str) and len(s) > 0 and all(is_ident(p) for p in s.split("/"))


def valid_field_name(s):
    return isinstance(s, str) and is_ident(s) and s not in RESERVED


def valid_field_type(s):
    if not isinstance(s, str):
        return False
    if s.endswith("[]"):
        s = s[:-2]
    return s in WHITELIST


def recognise(name, fields):
    if not valid_type_name(name):
        return False
    seen = set()
    for t, n in fields:
        if not valid_field_name(n) or not valid_field_type(t):
            return False
        if n in seen:
            return None  # duplicate field names: the statement does not say; not judged
        seen.add(n)
    return True


# ---- instrumentation from the harness side (no change to the repository) ----------------------------------------------------

def install():
    import builtins

    import flow.record.base as base

    if getattr(base, "_c06_installed", False):
        return
    real_exec = builtins.exec

    def checked_exec(code, globs=None, locs=None):
        if isinstance(code, str):
            EXEC_LOG.append(check_source(code, globs or {}))
        return real_exec(code, globs, locs)

    base.exec = checked_exec

    class _Importlib:
        def import_module(self, name, package=None):
            import importlib

            IMPORT_LOG.append(name)
            return importlib.import_module(name, package)

        def __getattr__(self, k):
            import importlib

            return getattr(importlib, k)

    base.importlib = _Importlib()
    base._c06_installed = True


def check_source(src, globs):
    """AST allow-list for the generated class source. Returns 'ok', 'syntax-error' or a description of what is off."""
    try:
        tree = ast.parse(src)
    except SyntaxError:
        return "syntax-error"
    fields = {k[len("_field_"):] for k in globs if isinstance(k, str) and k.startswith("_field_")}
    allowed = TEMPLATE_IDS | fields | {"_field_" + f for f in fields} | set(RESERVED)
    if len(tree.body) != 1 or not isinstance(tree.body[0], ast.ClassDef):
        return "not-a-single-class"
    cls = tree.body[0]
    if [getattr(b, "id", None) for b in cls.bases] != ["Record"] or cls.keywords or cls.decorator_list:
        return "bases"
    kinds = [type(x).__name__ for x in cls.body]
    if kinds != ["Assign", "Assign", "Assign", "FunctionDef", "FunctionDef"]:
        return "class-body:" + ",".join(kinds)
    for node in ast.walk(cls):
        if isinstance(node, ast.Name) and node.id not in allowed:
            return "name:" + node.id[:30]
        if isinstance(node, ast.arg) and node.arg not in allowed:
            return "arg:" + node.arg[:30]
        if isinstance(node, ast.Attribute) and node.attr not in allowed and node.attr not in ("type", "default", "_unpack", "get", "__slots__", "_field_types", "_generated", "_version"):
            return "attr:" + node.attr[:30]
        if isinstance(node, ast.Constant) and isinstance(node.value, str) and node.value not in fields and node.value not in RESERVED:
            return "const:" + node.value[:30]
        if isinstance(node, (ast.Import, ast.ImportFrom, ast.Lambda, ast.Global, ast.Nonlocal, ast.With, ast.Try, ast.While, ast.Delete)):
            return "node:" + type(node).__name__
        if isinstance(node, ast.Call):
            f = node.func
            ok = (isinstance(f, ast.Name) and f.id in ("_utcnow", "setattr", "dict", "_zip_longest", "__cls")) or isinstance(f, ast.Attribute)
            if not ok:
                return "call"
    return "ok"


def tripped():
    hit = False
    # (a generated module that turns '/' into '_' runs the payload with a relative name: look for that file too)
    for p in (TRIP % os.getpid(), (TRIP % os.getpid()).replace("/", "_")):
        if os.path.exists(p):
            os.unlink(p)
            hit = True
    return hit


# ---- doors -----------------------------------------------------------------------------------------------------------------

def clear():
    import flow.record.base as base

    base._generate_record_class.cache_clear()
    base.fieldtype.cache_clear()
    del EXEC_LOG[:]
    del IMPORT_LOG[:]


def door_ctor(name, fields):
    from flow.record import RecordDescriptor

    return RecordDescriptor(name, [tuple(f) for f in fields])


PRELUDE = [None]  # a valid definition delivered on the same stream before the candidate (identifier-colliding twins)


def door_stream(name, fields):
    from flow.record import RecordStreamReader

    hdr = refcodec.frame(refcodec.mp_encode(refcodec.Bin(refcodec.MAGIC)))
    pre = b""
    if PRELUDE[0]:
        pre = refcodec.frame(refcodec.mp_encode(refcodec.Ext(14, refcodec.mp_encode([2, [PRELUDE[0][0], [list(f) for f in PRELUDE[0][1]]]]))))
    desc = refcodec.frame(refcodec.mp_encode(refcodec.Ext(14, refcodec.mp_encode([2, [name, [list(f) for f in fields]]]))))
    rd = RecordStreamReader(io.BytesIO(hdr + pre + desc))
    for _ in rd:
        pass
    ds = [d for k, d in rd.packer.descriptors.items() if isinstance(k, tuple)]
    if not ds:
        raise LookupError("descriptor frame was not registered")
    return ds[-1]


_n = [0]


def door_json(name, fields):
    from flow.record.adapter.jsonfile import JsonfileReader

    _n[0] += 1
    p = os.path.join(os.environ["VERIF_SCRATCH"], "c06-%d-%d.json" % (os.getpid(), _n[0]))
    with open(p, "w") as f:
        if PRELUDE[0]:
            f.write(json.dumps({"_type": "recorddescriptor", "_data": [PRELUDE[0][0], [list(x) for x in PRELUDE[0][1]]]}) + "\n")
        f.write(json.dumps({"_type": "recorddescriptor", "_data": [name, [list(x) for x in fields]]}) + "\n")
    try:
        rd = JsonfileReader(p)
        for _ in rd:
            pass
        ds = [d for k, d in rd.packer.descriptors.items() if isinstance(k, tuple)]
        rd.close()
        if not ds:
            raise LookupError("descriptor line was not registered")
        return ds[0]
    finally:
        os.unlink(p)


def door_avro_doc(name, fields):
    import fastavro

    from flow.record.adapter.avro import AvroReader

    if not fields:
        return "door-closed"  # the reader recognises an embedded definition by its closing "]]]": a field-less one is not carried by this door
    _n[0] += 1
    p = os.path.join(os.environ["VERIF_SCRATCH"], "c06-%d-%d.avro" % (os.getpid(), _n[0]))
    schema = {"type": "record", "name": "x", "doc": json.dumps([name, [list(x) for x in fields]]), "fields": [{"name": "f%d" % i, "type": ["string", "null"]} for i in range(len(fields))]}
    with open(p, "wb") as f:
        fastavro.writer(f, fastavro.parse_schema(schema), [])
    try:
        rd = AvroReader(p)
        d = rd.desc
        rd.close()
        return d
    finally:
        os.unlink(p)


def door_avro_names(name, fields):
    """No embedded descriptor: type name from namespace/name, field names from the Avro fields (Avro's own naming rules permitting)."""
    import fastavro

    from flow.record.adapter.avro import AvroReader

    _n[0] += 1
    p = os.path.join(os.environ["VERIF_SCRATCH"], "c06-%d-%d.avro" % (os.getpid(), _n[0]))
    ns, _, nm = name.rpartition("/")
    schema = {"type": "record", "namespace": ns.replace("/", "."), "name": nm, "fields": [{"name": n, "type": ["string", "null"]} for _, n in fields]}
    try:
        parsed = fastavro.parse_schema(schema)
        with open(p, "wb") as f:
            fastavro.writer(f, parsed, [])
    except Exception:  # noqa: BLE001  Avro itself refuses the name: the door is closed for this candidate
        return "door-closed"
    try:
        rd = AvroReader(p)
        d = rd.desc
        rd.close()
        return d
    finally:
        os.unlink(p)


def strdef_text(name, fields):
    """The deprecated one-string definition ("name\\n type field;\\n ...") that denotes exactly (name, fields), or None when the
    candidate cannot be written that way (it contains the syntax's own separators)."""
    if not name or name != name.strip() or "\n" in name:
        return None
    for t, n in fields:
        if not t or not n or any(c.isspace() for c in t + n) or n.endswith(";"):
            return None
    return name + "".join("\n    %s %s;" % (t, n) for t, n in fields)


def door_strdef(name, fields):
    from flow.record import RecordDescriptor

    text = strdef_text(name, fields)
    if text is None:
        return "door-closed"
    return RecordDescriptor(text)


def door_clone(name, fields):
    """The deprecated RecordDescriptor(name, other_descriptor): only the name is new."""
    from flow.record import RecordDescriptor

    try:
        base = RecordDescriptor("ok/base", [tuple(f) for f in fields])
    except Exception:  # noqa: BLE001
        return "door-closed"
    return RecordDescriptor(name, base)


def door_stream_nil(name, fields):
    """A descriptor frame [definition string, nil]: the string-only definition arriving inside a stream."""
    from flow.record import RecordStreamReader

    text = strdef_text(name, fields)
    if text is None:
        return "door-closed"
    hdr = refcodec.frame(refcodec.mp_encode(refcodec.Bin(refcodec.MAGIC)))
    desc = refcodec.frame(refcodec.mp_encode(refcodec.Ext(14, refcodec.mp_encode([2, [text, None]]))))
    rd = RecordStreamReader(io.BytesIO(hdr + desc))
    for _ in rd:
        pass
    ds = [d for k, d in rd.packer.descriptors.items() if isinstance(k, tuple)]
    if not ds:
        raise LookupError("descriptor frame was not registered")
    return ds[-1]


def door_json_nil(name, fields):
    from flow.record.adapter.jsonfile import JsonfileReader

    text = strdef_text(name, fields)
    if text is None:
        return "door-closed"
    _n[0] += 1
    p = os.path.join(os.environ["VERIF_SCRATCH"], "c06-%d-%d.json" % (os.getpid(), _n[0]))
    with open(p, "w") as f:
        f.write(json.dumps({"_type": "recorddescriptor", "_data": [text, None]}) + "\n")
    try:
        rd = JsonfileReader(p)
        for _ in rd:
            pass
        ds = [d for k, d in rd.packer.descriptors.items() if isinstance(k, tuple)]
        rd.close()
        if not ds:
            raise LookupError("descriptor line was not registered")
        return ds[0]
    finally:
        os.unlink(p)


GROUP_ACCEPTED = "group-accepted"  # the grouped record exists under the given name (no flat descriptor was asked for)


def door_group_ctor(name, fields):
    """The name of a grouped record (its flat view is a record type of that name)."""
    from flow.record import GroupedRecord, RecordDescriptor

    from flow.record import RecordStreamWriter

    member = RecordDescriptor("ok/member", [tuple(f) for f in fields])()
    g = GroupedRecord(name, [member])
    repr(g)
    w = RecordStreamWriter(io.BytesIO())  # the packers look at the members only
    w.write(g)
    w.fp = None
    return GROUP_ACCEPTED


def door_group_stream(name, fields):
    """A GROUPED frame carrying the name, after a valid member definition."""
    from flow.record import RecordStreamReader

    hdr = refcodec.frame(refcodec.mp_encode(refcodec.Bin(refcodec.MAGIC)))
    mf = [list(f) for f in fields]
    desc = refcodec.frame(refcodec.mp_encode(refcodec.Ext(14, refcodec.mp_encode([2, ["ok/member", mf]]))))
    ident = ["ok/member", refcodec.desc_hash("ok/member", [tuple(f) for f in fields])]
    grp = refcodec.frame(refcodec.mp_encode(refcodec.Ext(14, refcodec.mp_encode([0x12, [name, [[ident, [None] * len(mf) + [None, None, None, 1]]]]]))))
    got = list(RecordStreamReader(io.BytesIO(hdr + desc + grp)))
    if not got:
        raise LookupError("grouped frame yielded nothing")
    repr(got[0])
    return GROUP_ACCEPTED


DOORS = {"group-ctor": door_group_ctor, "group-stream": door_group_stream, "strdef": door_strdef, "clone": door_clone, "stream-nil": door_stream_nil, "json-nil": door_json_nil, "ctor": door_ctor, "stream": door_stream, "json": door_json, "avro-doc": door_avro_doc, "avro-names": door_avro_names}


def check_shape(desc, name, fields, door, case, viol):
    """(ii) an accepted definition gives exactly the declared fields followed by the reserved metadata fields."""
    import datetime

    import flow.record.fieldtypes as ft

    want_slots = tuple(n for _, n in fields) + tuple(RESERVED)
    cls = desc.recordType
    if tuple(cls.__slots__) != want_slots:
        viol.append(("C06:shape:slots:%s" % door, case, {"slots": list(cls.__slots__), "want": list(want_slots)}))
        return
    if desc.name != name or [tuple(t) for t in desc.get_field_tuples()] != [tuple(f) for f in fields]:
        if door != "avro-names":
            viol.append(("C06:shape:descriptor:%s" % door, case, {"name": desc.name, "fields": [list(t) for t in desc.get_field_tuples()]}))
    # positional and keyword construction put each value where it was declared (string fields only: values are neutral)
    stringish = [i for i, (t, n) in enumerate(fields) if t in ("string", "wstring")]
    if stringish and len(stringish) == len(fields):
        vals = ["v%d" % i for i in range(len(fields))]
        gen = datetime.datetime(2020, 1, 1, tzinfo=datetime.timezone.utc)
        try:
            r1 = cls(*vals)
            for (t, n), v in zip(fields, vals):
                if getattr(r1, n) != v:
                    viol.append(("C06:shape:positional-value:%s" % n[:20], case, {"field": n, "got": repr(getattr(r1, n))[:60]}))
            if r1._version != 1 or r1._generated is None or r1._source is not None:
                viol.append(("C06:shape:metadata:%s" % ("version" if r1._version != 1 else "other"), case, {"_version": repr(r1._version)[:40], "fields": [n for _, n in fields]}))
            if not any(keyword.iskeyword(n) for _, n in fields):
                r2 = cls(**dict(zip([n for _, n in fields], vals)), _generated=gen)
            else:
                r2 = cls(**dict(zip([n for _, n in fields], vals)))
            for (t, n), v in zip(fields, vals):
                if getattr(r2, n) != v:
                    viol.append(("C06:shape:keyword-value:%s" % n[:20], case, {"field": n, "got": repr(getattr(r2, n))[:60]}))
            if r2._version != 1:
                viol.append(("C06:shape:metadata:version", case, {"_version": repr(r2._version)[:40], "fields": [n for _, n in fields]}))
        except Exception as e:  # noqa: BLE001
            viol.append(("C06:shape:construct-raises-%s" % type(e).__name__, case, {"error": repr(e)[:200], "fields": [n for _, n in fields]}))
    # field classes come from the whitelist (identity against an independently written table)
    table = {"string": ft.string, "wstring": ft.string, "varint": ft.varint, "uint16": ft.uint16, "uint32": ft.uint32, "boolean": ft.boolean, "float": ft.float,
             "datetime": ft.datetime, "bytes": ft.bytes, "digest": ft.digest, "path": ft.path, "uri": ft.uri, "command": ft.command, "dynamic": ft.dynamic,
             "filesize": ft.filesize, "unix_file_mode": ft.unix_file_mode, "stringlist": ft.stringlist, "dictlist": ft.dictlist, "record": ft.record,
             "net.ipaddress": ft.net.ipaddress, "net.IPAddress": ft.net.ipaddress, "net.ipnetwork": ft.net.ipnetwork, "net.IPNetwork": ft.net.ipnetwork}
    for t, n in fields:
        got = cls._field_types.get(n)
        if t in table and got is not table[t]:
            viol.append(("C06:shape:field-class:%s" % t, case, {"field": n, "class": repr(got)}))
        if t.endswith("[]") and t[:-2] in table and getattr(got, "__type__", None) is not table[t[:-2]]:
            viol.append(("C06:shape:list-element-class:%s" % t, case, {"field": n, "class": repr(getattr(got, "__type__", None))}))


def run_case(case):
    install()
    h = jhash(case)
    name, fields = case["name"], [tuple(f) for f in case["fields"]]
    verdict = recognise(name, fields)
    viol = []
    outs = []
    doors = case.get("doors") or ["ctor", "stream", "json"]
    what = case["what"]
    if what in ("type-name", "field-name", "field-type"):
        doors = list(doors) + ["strdef", "stream-nil", "json-nil"] + (["clone", "group-ctor", "group-stream"] if what == "type-name" and fields else [])
    PRELUDE[0] = case.get("prelude")
    for door in doors:
        clear()
        with warnings.catch_warnings():
            warnings.simplefilter("ignore")
            try:
                d = DOORS[door](name, fields)
                err = None
            except RecursionError:
                raise
            except BaseException as e:  # noqa: BLE001
                d, err = None, e
        if d == "door-closed":
            outs.append(door + ":closed")
            continue
        srcs = list(EXEC_LOG)
        imps = list(IMPORT_LOG)
        if tripped():
            viol.append(("C06:code-executed:%s:%s" % (what, door), case, {}))
        for s in srcs:
            if s not in ("ok", "syntax-error"):
                viol.append(("C06:generated-source-off-template:%s:%s:%s" % (what, door, s.split(":")[0]), case, {"finding": s}))
        for m in imps:
            if not (m == "flow.record.fieldtypes" or m.startswith("flow.record.fieldtypes.net") or m.startswith("flow.record.adapter")):
                viol.append(("C06:import-outside-whitelist:%s" % m[:40], case, {"door": door}))
        if err is None and door == "avro-names":
            # this door derives the definition from Avro's own names (it strips and skips what it cannot use): judge what came out
            outs.append(door + ":accepted")
            got_fields = [tuple(t) for t in d.get_field_tuples()]
            if recognise(d.name, got_fields) is False:
                viol.append(("C06:accepted-invalid-%s:%s:%s" % (what, door, case.get("cls", "")), case, {"name": d.name, "fields": got_fields}))
            else:
                check_shape(d, d.name, got_fields, door, case, viol)
        elif err is None:
            outs.append(door + ":accepted")
            if verdict is False:
                viol.append(("C06:accepted-invalid-%s:%s:%s" % (what, door, case.get("cls", "")), case, {"name": name, "fields": [list(f) for f in fields]}))
            elif verdict is True and d != GROUP_ACCEPTED:
                check_shape(d, name, fields, door, case, viol)
        else:
            compile_time = "syntax-error" in srcs or isinstance(err, (SyntaxError, IndentationError))
            outs.append(door + (":rejected-at-compile-time" if compile_time else ":rejected") + (":valid-by-recogniser" if verdict is True else ""))
            # (the statement gives a necessary condition for acceptance; refusing a well-formed name, e.g. a Python keyword as
            #  type name, does not contradict it and is only counted)
    seen = set()
    v2 = [v for v in viol if not (v[0] in seen or seen.add(v[0]))]
    return {"ev": len(doors), "h": h, "nt": verdict is False, "out": outs, "viol": v2, "count": {"generated_sources_checked": len(EXEC_LOG)},
            "sample": case if int(h, 16) % 2999 == 0 else None}


def classify_string(s):
    if s.endswith("\n") and s[:-1] and "\n" not in s[:-1]:
        return "trailing-newline"
    if any(ord(c) > 127 for c in s):
        return "non-ascii"
    if any(ord(c) < 32 for c in s):
        return "control"
    return "ascii"


def cases(tier, seed):
    n = 4 if tier == "thorough" else 3
    ok_fields = [["string", "fine"]]
    strings = [""]
    for k in range(1, n + 1):
        strings += ["".join(p) for p in itertools.product(GAMMA, repeat=k)]
    for s in strings:
        yield {"what": "type-name", "cls": classify_string(s), "name": s, "fields": ok_fields}
        yield {"what": "field-name", "cls": classify_string(s), "name": "ok/type", "fields": [["string", s]]}
    stems = ["test", "a/b", "Abc_9"]
    affix = GAMMA + [chr(c) for c in range(0, 33)] + ["\x7f", "\r", ";", "'", ")", "=", "\\", "#", "@", "$", "%", "*", "+", ",", "<", "[", "{", "|", "~", "`"]
    for st in stems:
        for c in affix:
            for s in (st + c, c + st, st + c + "x"):
                yield {"what": "type-name", "cls": classify_string(s), "name": s, "fields": ok_fields, "doors": ["ctor", "stream", "json", "avro-doc", "avro-names"]}
                if "/" not in st:
                    yield {"what": "field-name", "cls": classify_string(s), "name": "ok/type", "fields": [["string", s]], "doors": ["ctor", "stream", "json", "avro-doc", "avro-names"]}
    trip = "open('/dev/shm/c06-pwned-%d' % __import__('os').getpid(), 'w')"
    payloads = [
        "x(Record):\n    pass\n%s\nclass y" % trip, "x:\n    pass\n%s\nclass y(Record)" % trip, "x(Record): pass; %s #" % trip, "x, y", "x=None, y", "x=%s" % trip,
        "a): pass\n%s\n#" % trip, "a=None):\n        pass\n%s\n    def f(x" % trip, "a')%s" % trip, "a',) + (%s," % trip, "a\": 1}; %s; {\"" % trip, "a\\", "a#", "a;b",
        "__class__", "__init__", "__slots__", "__dict__", "_desc", "_field_types", "_unpack", "_pack", "_asdict", "_replace", "__self", "__cls", "RECORD_VERSION", "Record",
        "_utcnow", "_zip_longest", "args", "kwargs", "k", "v", "f", "values", "self", "cls", "None", "True", "False", "print", "exec", "eval", "__import__", "os", "sys",
        "a" * 255, "a" * 256, "a" * 65535, "b" * 100000, "a b", "a\tb", "a.b", "a-b", "a/", "/a", "a//b", "a/1", "1a", "_a", "a_", "A", "aZ09_", "\u0430", "a\u0301", "\u212a", "\uff21",
        "a\nb", "a\rb", "a\x00", "\x00a", "\ufeffa", "a\u200b", "a\u2028b",
    ] + list(keyword.kwlist) + list(getattr(keyword, "softkwlist", []))
    # a valid prefix of a length at which an implementation might stop looking, followed by what must be refused
    for n in (63, 64, 255, 256, 1023, 1024, 4095, 4096, 4097, 8192, 65535, 65536):
        for tail in ("\u0430", "/", " x", "\n", "-", "(Record): pass\n%s\nclass y" % trip, "=None):\n        pass\n%s\n    def f(x" % trip):
            s = "a" * n + tail
            yield {"what": "type-name", "cls": "long-prefix:" + classify_string(tail), "name": s, "fields": ok_fields, "doors": ["ctor", "stream", "json", "avro-doc"]}
            yield {"what": "field-name", "cls": "long-prefix:" + classify_string(tail), "name": "ok/type", "fields": [["string", s]], "doors": ["ctor", "stream", "json", "avro-doc"]}
            yield {"what": "type-name", "cls": "long-prefix:" + classify_string(tail), "name": "ns/" * (n // 3) + "t" + tail, "fields": ok_fields, "doors": ["ctor", "stream"]}
    # a Python-keyword field name (the generated class then takes *args/**kwargs) in front of, between and behind other candidates
    for kw in ("from", "class", "lambda", "in"):
        for s2 in ("_source", "_classification", "_generated", "_version", "_x", "__class__", "ok", "1a", "a b", "\u0430", "from", kw):
            for fields in ([["string", kw], ["string", s2]], [["string", s2], ["string", kw]], [["string", "a"], ["string", kw], ["string", s2], ["string", "z"]]):
                yield {"what": "field-name", "cls": "after-keyword:" + classify_string(s2), "name": "ok/type", "fields": fields, "doors": ["ctor", "stream", "json"]}
    # the same type-name candidates with an EMPTY field list (a record type without fields is legal)
    for s in payloads + ["ok/name", "a b", "a\nb", " padded ", "test/x\nuint32 injected", "test/x\n    string injected;", "x\ty", "a/b\n", "\na"]:
        yield {"what": "type-name", "cls": "no-fields:" + classify_string(s), "name": s, "fields": [], "doors": ["ctor", "stream", "json", "avro-doc"]}
    for s in payloads:
        doors = ["ctor", "stream", "json", "avro-doc", "avro-names"]
        yield {"what": "type-name", "cls": classify_string(s), "name": s, "fields": ok_fields, "doors": doors}
        yield {"what": "field-name", "cls": classify_string(s), "name": "ok/type", "fields": [["string", s]], "doors": doors}
        yield {"what": "field-name", "cls": classify_string(s), "name": "ok/type", "fields": [["string", "first"], ["string", s], ["string", "last"]], "doors": ["ctor", "stream"]}
    types = list(WHITELIST) + [t + "[]" for t in WHITELIST] + [t + "[][]" for t in ("string", "net.ipaddress")] + [
        " string", "string ", "string\n", "String", "STRING", "str", "int", "os.system", "net.ipaddress.__class__", "path.posix_path", "posix_path", "windows_path", "typedlist",
        "FieldType", "net.ip.ip_address", "net.ip.ipaddress", "net.ipv4.SubnetList", "net.ipv4.subnet", "net.ipv4.address", "fieldtypes.os", "", ".", "net.", "net", "net[]",
        "net.ipv4", "net.ipv4[]", "net.tcp", "net.tcp[]", "net..ipaddress", ".string", "string.", "net.hostname", "net.email", "credential.username", "credential.password",
        "human_readable_size", "defang", "re", "os", "sys", "pathlib.PurePath", "_dt", "RE_NORMALIZE_PATH", "net.defang", "net.FieldType", "net.string", "[]", "[][]", "string[",
        "string[]x", "record[]", "dynamic[]", "__class__", "net.__class__", "net.ipaddress[] ",
    ]
    # an invalid definition whose identifier (name + hash over the concatenated field names and types) equals that of a valid one
    # sent just before it on the same stream
    twins = [
        ([["string", "cmd"]], [["dstring", "cm"]]), ([["string", "cmd"]], [["cmdstring", ""]]), ([["string", "cmd"]], [["g", "cmdstrin"]]),
        ([["unix_file_mode", "a"], ["string", "b"]], [["unix", "a"], ["string", "_file_modeb"]]), ([["varint", "n"], ["string", "s"]], [["varintsstring", "n"]]),
        ([["string", "a"], ["string", "b"]], [["stringbstring", "a"]]), ([["net.ipaddress", "ip"]], [["ipaddress", "ipnet."]]), ([["string", "ab"]], [["bstring", "a"], ["", ""]]),
    ]
    for valid, crafted in twins:
        yield {"what": "colliding-definition", "cls": "ascii", "name": "tw/in", "fields": crafted, "prelude": ["tw/in", valid], "doors": ["stream", "json"]}
        yield {"what": "colliding-definition", "cls": "ascii", "name": "tw/in", "fields": crafted, "doors": ["stream", "json", "ctor"]}
    for t in types:
        yield {"what": "field-type", "cls": "ascii", "name": "ok/type", "fields": [[t, "f"]], "doors": ["ctor", "stream", "json", "avro-doc"]}


def run_direct_types(case):
    return None


def main(tier, seed, workers=None):
    run = Run(PROP, "exploration", tier, seed, RULE)
    run.assumptions = ["'rejected' means any exception; candidates that reach the compiler and fail there are counted separately (rejected-at-compile-time)",
                       "definitions with duplicate field names are not judged"]
    install()
    explore(run, cases(tier, seed), run_case, workers, chunk=128)
    return run.finish(lambda case: [v[0] for v in run_case(case)["viol"]])
