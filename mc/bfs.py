"""E2: explicit-state breadth-first search over the real transition function.

A state is the event history that reaches it. step(hist) builds fresh real objects, replays hist, and returns
  {"canon": <json-able canonical state>, "viol": [(sig, case, detail)], "out": outcome key(s), "enabled": [events],
   "terminal": bool}
The per-transition oracle is evaluated inside step() for the *last* event of hist (earlier events were judged when
their own history was expanded).  Level-synchronous, so workers can share a level.
"""
from __future__ import annotations

import multiprocessing as mp

from .report import jhash
from .space import workers_default

_STEP = None


def _guard_mem():
    import resource

    from mc.space import WORKER_AS_LIMIT

    try:
        resource.setrlimit(resource.RLIMIT_AS, (WORKER_AS_LIMIT, WORKER_AS_LIMIT))
    except (ValueError, OSError):
        pass


def _do(hists):
    out = []
    for h in hists:
        try:
            r = _STEP(h)
        except Exception as e:  # noqa: BLE001
            import traceback

            r = {"canon": ["HARNESS-ERROR", repr(e)], "viol": [], "out": "HARNESS-ERROR", "enabled": [],
                 "err": "%s: %s\n%s" % (type(e).__name__, e, traceback.format_exc()[-1500:])}
        r["hist"] = h
        out.append(r)
    return out


def bfs(run, step, max_depth, workers=None, chunk=16, label="", full_depth=0, budget=600000):
    """Returns (states, transitions, fixpoint_reached, max_depth_seen).

    budget bounds the number of transitions: a change to the code under test that adds ever-growing bookkeeping to the objects the
    canonical state projects makes every history a new state; the search then stops at the last complete level and says so."""
    global _STEP
    _STEP = step
    workers = workers or workers_default()
    root = _do([[]])[0]
    if "err" in root:
        run.internal_errors.append("harness error at root: " + root["err"])
    seen = {jhash(root["canon"])}
    frontier = [([], root["enabled"])]
    states, transitions, depth = 1, 0, 0
    longest = []
    budget_hit = False
    ctx = mp.get_context("fork")
    pool = ctx.Pool(workers, initializer=_guard_mem) if workers > 1 else None
    try:
        while frontier and depth < max_depth:
            depth += 1
            todo = [h + [ev] for h, en in frontier for ev in en]
            if transitions + len(todo) > budget:
                depth -= 1
                run.cap("%sBFS stopped after depth %d: the next level has %d transitions, over the budget of %d (%d done)" % (label, depth, len(todo), budget, transitions))
                frontier = []
                budget_hit = True
                break
            groups = [todo[i:i + chunk] for i in range(0, len(todo), chunk)]
            results = pool.imap(_do, groups) if pool else map(_do, groups)
            nxt = []
            for grp in results:
                for r in grp:
                    transitions += 1
                    if "err" in r:
                        run.internal_errors.append("harness error on history %s: %s" % (r["hist"], r["err"]))
                    run.add_result({"ev": 1, "h": jhash(r["hist"]), "nt": True, "out": r.get("out"),
                                    "viol": r.get("viol", ()), "count": r.get("count", {})})
                    k = jhash(r["canon"])
                    new = k not in seen
                    if new:
                        seen.add(k)
                        states += 1
                        longest = r["hist"]
                    # below full_depth every history is expanded whatever its canonical state (guards against a canonical
                    # projection that misses state a future change adds)
                    if (new or depth < full_depth) and not r.get("terminal"):
                        nxt.append((r["hist"], r["enabled"]))
            frontier = nxt
    finally:
        if pool:
            pool.terminate()
            pool.join()
    fix = not frontier and not budget_hit
    if frontier:
        run.cap("%sBFS stopped at depth cap %d with %d unexpanded states" % (label, max_depth, len(frontier)))
    if longest:
        run.sample({"history": longest})
    return states, transitions, fix, depth
