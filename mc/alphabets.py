"""Per-field-type value alphabets as literal specs (DESIGN 2.1): core (hand-picked from code boundaries) + ext(seed).

Every alphabet is enumerated exhaustively; the seed only adds further values to enumerate, it never decides whether
something is enumerated.
"""
from __future__ import annotations

import random

STR_CORE = [
    "''", "'a'", "S('a',31)", "S('b',32)", "S('c',255)", "S('d',256)", "S('e',65535)", "S('f',65536)",
    "'\\xe9\\u20ac\\U0001f600'", "'\\udc80'", "'a\\udcffb'", "'a\\x00b'", "'l\\nf\\r\\n'", "'\"\\'\\\\,;|\\t'",
    "b'raw\\xff\\xfe'",
]
BYTES_CORE = ["b''", "b'\\x00'", "b'\\xff\\xfe'", "S(b'a',255)", "S(b'b',256)", "S(b'c',65535)", "S(b'd',65536)", "b'abc'"]
INT_CORE = [
    "0", "1", "-1", "127", "128", "-32", "-33", "255", "256", "65535", "65536", "2**31-1", "2**31", "2**32-1", "2**32",
    "2**63-1", "2**63", "2**64-1", "2**64", "-2**63", "-2**63-1", "2**200", "-2**200", "-2**31", "-2**31-1",
]
UINT16_CORE = ["0", "1", "65535", "80"]
UINT32_CORE = ["0", "1", "65536", "2**31-1", "2**31", "2**32-1"]
BOOL_CORE = ["True", "False", "0", "1"]
FLOAT_CORE = ["0.0", "-0.0", "1.5", "0.1", "nan", "inf", "-inf", "5e-324", "1.7976931348623157e308", "float(2**53+1)",
              "-1.5", "3"]
DT_CORE = [
    "dt(1,1,1,0,0,0)", "dt(1,1,1,23,59,59,999999,tz=UTC)", "dt(1969,12,31,23,59,59,999999,tz=UTC)",
    "dt(1970,1,1,tz=UTC)", "dt(1970,1,1,0,0,0,1,tz=UTC)", "dt(1970,1,1,1,11,35,tz=UTC)", "dt(2000,2,29,12,0,0)",
    "dt(2038,1,19,3,14,8,tz=UTC)", "dt(9999,12,31,23,59,59,999999,tz=UTC)",
    "dt(2020,3,29,2,30,tz=Z('Europe/Amsterdam'))", "dt(2020,10,25,2,30,tz=Z('Europe/Amsterdam'))",
    "dt(2020,6,1,12,0,0,tz=Z('UTC'))", "dt(2020,6,1,12,0,0,5,tz=off(5,30))", "dt(2020,6,1,12,0,0,tz=off(5,neg=True))",
    "dt(2020,6,1,12,0,0,tz=off(14))", "dt(2020,6,1,12,0,0,tz=off(12,neg=True))", "dt(2020,6,1,12,0,0,tz=off(1,2,3))",
    "dt(999,6,1,12,0,0,tz=off(5,30))", "dt(1,1,2,0,0,0,7,tz=off(1))", "dt(45,3,15,12,0,0,tz=off(2,neg=True))",
    "dt(2021,1,1,0,0,0,tz=Z('America/New_York'))", "dt(2021,4,4,1,45,tz=Z('Australia/Lord_Howe'))",
    "'2022-02-02T02:02:02.123456+00:00'", "'2022-02-02 02:02:02'", "'2022-02-02T02:02:02Z'", "'2022-02-02T02:02:02+0530'",
    "1600000000", "1600000000.5", "0", "-1",
    # the second occurrence of a repeated wall time (fold=1), and fold=1 where it means nothing
    "dt(2020,10,25,2,30,tz=Z('Europe/Amsterdam'),fold=1)", "dt(2021,4,4,1,45,tz=Z('Australia/Lord_Howe'),fold=1)",
    # wall times whose UTC instant lies outside year 1..9999
    "dt(1,1,1,0,0,0,tz=off(5,30))", "dt(9999,12,31,23,59,59,999999,tz=off(5,neg=True))",
    "dt(2020,6,1,12,0,0,tz=off(5,30),fold=1)", "dt(2020,6,1,12,0,0,tz=UTC,fold=1)", "dt(2020,6,1,12,0,0,fold=1)",
]
DIGEST_CORE = [
    "('d41d8cd98f00b204e9800998ecf8427e', None, None)",
    "(None, 'da39a3ee5e6b4b0d3255bfef95601890afd80709', None)",
    "('d41d8cd98f00b204e9800998ecf8427e', 'da39a3ee5e6b4b0d3255bfef95601890afd80709', "
    "'e3b0c44298fc1c149afbf4c8996fb92427ae41e4649b934ca495991b7852b855')",
    "('D41D8CD98F00B204E9800998ECF8427E', None, None)",
    "(None, None, None)",
    "{'sha256': 'e3b0c44298fc1c149afbf4c8996fb92427ae41e4649b934ca495991b7852b855'}",
    "('00000000000000000000000000000000', None, None)",
]
PATH_CORE = [
    "''", "'/'", "'/a/b'", "'rel/x'", "'a\\\\b'", "'/a/b/'", "'.'", "'..'", "'/a/../b'", "'//a'",
    "windows_path('C:\\\\a\\\\b')", "windows_path('\\\\\\\\unc\\\\share\\\\x')", "windows_path('\\\\C:\\\\x')",
    "windows_path('rel\\\\x')", "windows_path('')", "windows_path('c:/mixed/sep')", "windows_path('\\\\nodrive')",
    "PWP('D:\\\\x y\\\\z')", "PPP('/p/q')", "posix_path('/q\"uote\\'s')", "posix_path('/\\udc80x')", "windows_path('C:')",
    "windows_path('/fwd/only')",
]
COMMAND_CORE = [
    "'ls -l'", "\"/bin/sh -c 'a b'\"", "'C:\\\\x.exe /a /b'", "'%WINDIR%\\\\a.exe'", "'\"C:\\\\Program Files\\\\x.exe\" -y'",
    "'cmd'", "'\\\\\\\\host\\\\share\\\\x.exe'", "posix_command('C:\\\\x.exe -y')", "windows_command('ls -l')",
    "posix_command(None)", "windows_command(None)", "'/bin/echo \"q u\" x'",
]
IP_CORE = [
    "'0.0.0.0'", "'1.2.3.4'", "'255.255.255.255'", "'::'", "'::1'", "'::ffff:1.2.3.4'", "2**32-1", "2**32",
    "'ffff:ffff:ffff:ffff:ffff:ffff:ffff:ffff'", "'2001:db8::1'", "'::ffff:ffff'", "'::1:0:0'", "1", "b'\\x01\\x02\\x03\\x04'",
]
NET_CORE = [
    "'0.0.0.0/0'", "'10.0.0.0/8'", "'1.2.3.4/32'", "'::/0'", "'::1/128'", "'fe80::/10'", "'1.2.3.4'", "'::ffff:0:0/96'",
    "'::/96'",
]
IP4_CORE = ["'1.2.3.4'", "0", "2**32-1", "'255.255.255.255'"]
STRINGLIST_CORE = ["[]", "['a','\\xe9']", "['a']", "['', 'b', '\\udc80']"]
DICTLIST_CORE = ["[]", "[{'k':1},{'z':'v'}]", "[{'a': None}]", "[{'a': 1, 'b': [2, {'c': 3, 'd': 4}]}]", "[{'b': [2, {'d': 4, 'c': 3}], 'a': 1}]", "[{'a': 1, 2: 'b', None: 3}]", "[{None: 3, 2: 'b', 'a': 1}]"]
DYNAMIC_CORE = ["b'by'", "'st'", "True", "7", "2**70", "dt(2020,1,1,tz=UTC)", "['a','b']", "('t',)", "posix_path('/d')",
                "windows_path('C:\\\\d')", "1.5 if False else 'x'"]

TYPE_ALPHABET = {
    "string": STR_CORE,
    "wstring": STR_CORE[:6],
    "uri": ["''", "'a'", "'http://u:p@host:80/p/f.txt?q=1#fr'", "'C:\\\\x\\\\y'", "'\\udc80'", "S('u',300)",
            "'http://[::1]/x'"],
    "bytes": BYTES_CORE,
    "varint": INT_CORE,
    "filesize": INT_CORE[:4] + ["2**63", "-2**63-1", "2**64", "1024", "2**40"],
    "unix_file_mode": ["0", "0o644", "0o100755", "2**64", "-1"],
    "uint16": UINT16_CORE,
    "uint32": UINT32_CORE,
    "net.tcp.Port": UINT16_CORE,
    "net.udp.Port": UINT16_CORE,
    "boolean": BOOL_CORE,
    "float": FLOAT_CORE,
    "datetime": DT_CORE,
    "digest": DIGEST_CORE,
    "path": PATH_CORE,
    "command": COMMAND_CORE,
    "net.ipaddress": IP_CORE,
    "net.IPAddress": IP_CORE[:6],
    "net.ipnetwork": NET_CORE,
    "net.IPNetwork": NET_CORE[:5],
    "net.ipv4.Address": IP4_CORE,
    "stringlist": STRINGLIST_CORE,
    "dictlist": DICTLIST_CORE,
    "dynamic": DYNAMIC_CORE,
}

# types whose list form T[] is meaningful to enumerate (stringlist/dictlist/dynamic lists are loose by design)
LISTABLE = [
    "string", "wstring", "uri", "bytes", "varint", "filesize", "unix_file_mode", "uint16", "uint32", "net.tcp.Port",
    "net.udp.Port", "boolean", "float", "datetime", "digest", "path", "command", "net.ipaddress", "net.ipnetwork",
    "net.ipv4.Address",
]


def ext(typename: str, seed: int, n: int = 3):
    """Seeded extension slice: a few more specs per type from named families, enumerated like the core."""
    rnd = random.Random("%s/%d" % (typename, seed))
    out = []
    if typename in ("string", "wstring", "uri"):
        for _ in range(n):
            ln = rnd.choice([1, 2, 5, 17, 33, 100, 300])
            cps = []
            for _ in range(ln):
                fam = rnd.random()
                if fam < 0.5:
                    cps.append(rnd.randrange(0x20, 0x7F))
                elif fam < 0.8:
                    cps.append(rnd.randrange(0xA0, 0xD7FF))
                elif fam < 0.9:
                    cps.append(rnd.randrange(0x10000, 0x10FFFF))
                else:
                    cps.append(rnd.randrange(0xDC80, 0xDCFF))
            # keep to strings that are the surrogateescape image of some byte string: adjacent lone surrogates that spell a
            # valid UTF-8 sequence (\udcde\udca2 = bytes DE A2 = U+07A2) are not "undecodable bytes" and cannot round-trip by design
            txt = "".join(map(chr, cps)).encode("utf-8", "surrogateescape").decode("utf-8", "surrogateescape")
            out.append(repr(txt))
    elif typename == "bytes":
        for _ in range(n):
            out.append(repr(bytes(rnd.randrange(256) for _ in range(rnd.choice([1, 3, 40, 300])))))
    elif typename in ("varint", "filesize", "unix_file_mode"):
        for _ in range(n):
            bits = rnd.choice([3, 9, 17, 33, 62, 65, 100, 1000, 4096])
            v = rnd.getrandbits(bits)
            out.append(str(-v if rnd.random() < 0.5 else v))
    elif typename in ("uint16", "net.tcp.Port", "net.udp.Port"):
        out = [str(rnd.randrange(0, 65536)) for _ in range(n)]
    elif typename == "uint32":
        out = [str(rnd.randrange(0, 2**32)) for _ in range(n)]
    elif typename == "float":
        import struct

        for _ in range(n):
            b = rnd.getrandbits(64)
            f = struct.unpack(">d", b.to_bytes(8, "big"))[0]
            if f != f:
                continue
            out.append(repr(f).replace("inf", "inf"))
    elif typename == "datetime":
        for _ in range(n):
            y = rnd.randrange(1, 10000)
            spec = "dt(%d,%d,%d,%d,%d,%d,%d,tz=%s)" % (
                y, rnd.randrange(1, 13), rnd.randrange(1, 29), rnd.randrange(24), rnd.randrange(60), rnd.randrange(60),
                rnd.randrange(1000000),
                rnd.choice(["UTC", "None", "off(%d,%d)" % (rnd.randrange(0, 13), rnd.choice([0, 15, 30, 45])),
                            "off(%d,neg=True)" % rnd.randrange(0, 12)]) if 2 <= y <= 9998 else "UTC",
            )
            out.append(spec)
    elif typename in ("net.ipaddress", "net.IPAddress"):
        for _ in range(n):
            out.append(str(rnd.getrandbits(rnd.choice([8, 31, 32, 33, 64, 128]))))
    elif typename in ("net.ipnetwork", "net.IPNetwork"):
        for _ in range(n):
            if rnd.random() < 0.5:
                p = rnd.randrange(0, 33)
                a = (rnd.getrandbits(32) >> (32 - p) << (32 - p)) if p else 0
                out.append(repr("%d.%d.%d.%d/%d" % (a >> 24, (a >> 16) & 255, (a >> 8) & 255, a & 255, p)))
            else:
                import ipaddress

                p = rnd.randrange(0, 129)
                a = (rnd.getrandbits(128) >> (128 - p) << (128 - p)) if p else 0
                out.append(repr("%s/%d" % (ipaddress.IPv6Address(a), p)))
    elif typename == "path":
        for _ in range(n):
            parts = ["".join(chr(rnd.choice([rnd.randrange(0x61, 0x7B), 0x20, 0x2E, 0xE9])) for _ in range(rnd.randrange(1, 6)))
                     for _ in range(rnd.randrange(1, 4))]
            if rnd.random() < 0.5:
                out.append("posix_path(%r)" % ("/" + "/".join(parts)))
            else:
                out.append("windows_path(%r)" % ("C:\\" + "\\".join(parts)))
    return out


def alphabet(typename: str, seed: int = 0, with_none: bool = True):
    vals = list(TYPE_ALPHABET.get(typename, []))
    for s in ext(typename, seed):
        if s not in vals:
            vals.append(s)
    if with_none:
        vals = ["None"] + vals
    return vals


# reduced atoms for pair products: every packed *shape* occurs (native, ext-wrapped, tuple, None)
PAIR_ATOMS = [
    ("string", "'a'"), ("string", "'\\udc80'"), ("string", "None"),
    ("bytes", "b'\\x00'"), ("bytes", "None"),
    ("varint", "1"), ("varint", "-2**63-1"), ("varint", "2**64"),
    ("uint16", "65535"), ("uint32", "2**32-1"), ("boolean", "True"), ("boolean", "False"),
    ("float", "-0.0"), ("float", "1.5"),
    ("datetime", "dt(2020,6,1,12,0,0,tz=UTC)"), ("datetime", "dt(2020,6,1,12,0,0,5,tz=off(5,30))"), ("datetime", "None"),
    ("digest", DIGEST_CORE[0]), ("digest", "None"),
    ("path", "'/a/b'"), ("path", "windows_path('C:\\\\a\\\\b')"), ("path", "None"),
    ("command", "'ls -l'"), ("command", "'C:\\\\x.exe /a /b'"),
    ("net.ipaddress", "'1.2.3.4'"), ("net.ipaddress", "'2001:db8::1'"),
    ("net.ipnetwork", "'10.0.0.0/8'"), ("uri", "'http://h/p'"),
    ("stringlist", "['a','b']"), ("dictlist", "[{'k':1}]"), ("dynamic", "7"), ("dynamic", "'st'"),
    ("string[]", "['x','y']"), ("string[]", "None"), ("varint[]", "[2**70,-1]"), ("datetime[]", "[dt(2020,1,1,tz=off(1))]"),
    ("path[]", "[windows_path('C:\\\\a'), posix_path('/b')]"), ("net.ipaddress[]", "['1.1.1.1','2001:db8::2']"),
    ("digest[]", "[" + DIGEST_CORE[0] + "]"), ("net.ipv4.Address", "'1.2.3.4'"),
]

FIELD_NAMES_SPECIAL = ["a", "ts", "from", "args", "kwargs", "k", "v", "cls", "self", "Record", "f", "values"]
