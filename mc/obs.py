"""Deep canonical observation of values and records (DESIGN 2.2).

obs() never calls the library's __eq__, __hash__ or _pack. Observations are JSON-serialisable nested lists compared
with plain ==.
"""
from __future__ import annotations

import datetime as _d
import ipaddress as _ip
import pathlib
import struct


def _cls(v):
    t = type(v)
    mod = t.__module__
    if mod.startswith("flow.record.fieldtypes"):
        mod = "ft" + mod[len("flow.record.fieldtypes"):]
    elif mod == "builtins":
        return t.__qualname__
    return mod + "." + t.__qualname__


def obs(v, _depth=0):
    from flow.record import GroupedRecord, Record
    from flow.record import fieldtypes as ft
    from flow.record.fieldtypes import net
    from flow.record.fieldtypes.net import ipv4

    if _depth > 12:
        return ["too-deep"]
    if v is None:
        return ["none"]
    if isinstance(v, GroupedRecord):
        return ["grouped", v.name, [obs(r, _depth + 1) for r in v.records]]
    if isinstance(v, Record):
        return obs_record(v, _depth)
    if type(v) is bool:
        return ["bool", v]
    if isinstance(v, (ft.boolean, ft.uint16, ft.uint32)):
        return ["int", _cls(v), int.__int__(v), obs(v.value, _depth + 1)]
    if isinstance(v, int):
        return ["int", _cls(v), int.__int__(v)]
    if isinstance(v, float):
        return ["float", _cls(v), struct.pack(">d", v).hex()]
    if isinstance(v, ft.uri):
        return ["str", _cls(v), str.__str__(v)]
    if isinstance(v, str):
        return ["str", _cls(v), str.__str__(v)]
    if isinstance(v, ft.bytes):
        return ["bytes", _cls(v), bytes.hex(v), obs(v.value, _depth + 1) if v.value is not v else None]
    if isinstance(v, (bytes, bytearray)):
        return ["bytes", _cls(v), bytes(v).hex()]
    if isinstance(v, _d.datetime):
        off = v.utcoffset()
        o = None if off is None else off.days * 86400 + off.seconds + off.microseconds / 1e6
        return ["dt", _cls(v), [v.year, v.month, v.day, v.hour, v.minute, v.second, v.microsecond], o]
    if isinstance(v, pathlib.PurePath):
        flav = "windows" if isinstance(v, pathlib.PureWindowsPath) else "posix"
        return ["path", _cls(v), flav, str(v)]
    if isinstance(v, ft.command):
        flav = "windows" if isinstance(v, ft.windows_command) else "posix"
        args = v.args
        return ["cmd", flav, obs(v.executable, _depth + 1), None if args is None else [obs(a, _depth + 1) for a in args]]
    if isinstance(v, net.ipaddress):
        return ["ip", _cls(v), v.val.version, int(v.val)]
    if isinstance(v, net.ipnetwork):
        return ["net", _cls(v), v.val.version, v.val.compressed]
    if isinstance(v, (_ip.IPv4Address, _ip.IPv6Address)):
        return ["ipraw", v.version, int(v)]
    if isinstance(v, ipv4.address):
        return ["ip4", _cls(v), v.val]
    if isinstance(v, ipv4.subnet):
        return ["subnet4", v.net, v.mask]
    if isinstance(v, ft.digest):
        low = lambda x: None if x is None else (x.lower() if isinstance(x, str) else repr(x))  # noqa: E731
        return ["digest", low(v.md5), low(v.sha1), low(v.sha256)]
    if isinstance(v, list):
        return ["list", _cls(v), [obs(x, _depth + 1) for x in v]]
    if isinstance(v, tuple):
        return ["tuple", [obs(x, _depth + 1) for x in v]]
    if isinstance(v, dict):
        return ["dict", [[obs(k, _depth + 1), obs(x, _depth + 1)] for k, x in v.items()]]
    return ["other", _cls(v), repr(v)]


def _is_default_unset(ftype):
    """typed lists and digests: unset is by definition the type's empty default."""
    from flow.record import fieldtypes as ft

    try:
        if issubclass(ftype, (ft.typedlist, ft.digest)):
            return True
        # T[] classes are created with type(name, typedlist.__bases__, dict(typedlist.__dict__)): not subclasses
        return issubclass(ftype, list) and getattr(ftype, "__type__", None) is not None
    except TypeError:
        return False


def obs_record(r, _depth=0):
    desc = r._desc
    slots = []
    ftypes = getattr(r, "_field_types", {})
    for k in r.__slots__:
        try:
            v = getattr(r, k)
        except AttributeError:
            slots.append([k, ["unset-slot"]])
            continue
        if v is None and _is_default_unset(ftypes.get(k)):
            try:
                v = ftypes[k].default()
            except Exception:  # noqa: BLE001
                pass
        slots.append([k, obs(v, _depth + 1)])
    return ["rec", desc.name, [list(t) for t in desc.get_field_tuples()], slots]


def obs_list(records):
    return [obs(r) for r in records]


def is_list_kind(o):
    return isinstance(o, list) and o and o[0] == "list"
