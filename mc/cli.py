"""./check driver."""
from __future__ import annotations

import argparse
import atexit
import importlib
import json
import os
import shutil
import sys
import tempfile


def scratch_dir():
    base = "/dev/shm" if os.path.isdir("/dev/shm") and os.access("/dev/shm", os.W_OK) else None
    if base is None:
        base = os.path.join(os.path.dirname(os.path.dirname(os.path.abspath(__file__))), ".scratch")
        os.makedirs(base, exist_ok=True)
    d = tempfile.mkdtemp(prefix="verif-", dir=base)
    pid = os.getpid()

    def _rm():
        if os.getpid() == pid:
            shutil.rmtree(d, ignore_errors=True)

    atexit.register(_rm)
    return d


def selftest():
    import flow.record

    repo = os.environ.get("VERIF_REPO", "/repo")
    p = os.path.realpath(flow.record.__file__)
    assert p.startswith(os.path.realpath(repo) + os.sep), "flow.record imported from %s, not %s" % (p, repo)
    d = scratch_dir()
    open(os.path.join(d, "x"), "w").close()
    from mc.report import validate_json

    here = os.path.dirname(os.path.dirname(os.path.abspath(__file__)))
    with open(os.path.join(here, "MANIFEST.json")) as f:
        man = json.load(f)
    err = validate_json(os.path.join(here, "MANIFEST.json"), "/root/.vp/MANIFEST.schema.json")
    assert not err, err
    print("selftest ok: flow.record from %s; scratch %s; manifest valid (%d checks)" % (p, d, len(man["checks"])))
    return 0


def main(argv=None):
    ap = argparse.ArgumentParser()
    ap.add_argument("prop", nargs="?")
    ap.add_argument("--tier", default=os.environ.get("VERIF_TIER", "quick"), choices=["quick", "thorough"])
    ap.add_argument("--replay")
    ap.add_argument("--repo", default="/repo")
    ap.add_argument("--workers", type=int, default=None)
    ap.add_argument("--selftest", action="store_true")
    a = ap.parse_args(argv)
    if a.selftest:
        return selftest()
    if not a.prop:
        ap.error("property id required")
    try:
        seed = int(os.environ.get("VERIF_SEED", "0") or 0)
    except ValueError:
        seed = 0
    import flow.record  # noqa: F401  (from PYTHONPATH = repo working tree)

    p = os.path.realpath(flow.record.__file__)
    if not p.startswith(os.path.realpath(a.repo) + os.sep):
        print("INTERNAL-ERROR: flow.record imported from %s, expected under %s" % (p, a.repo), file=sys.stderr)
        return 2
    os.environ["VERIF_SCRATCH"] = scratch_dir()
    from mc import lit

    lit.install_flow()
    mod = importlib.import_module("checks." + a.prop.lower())
    if a.replay:
        with open(a.replay) as f:
            rp = json.load(f)
        res = mod.run_case(rp["case"])
        print("replay of %s" % a.replay)
        print("expected signature: %s" % rp.get("signature"))
        sigs = [v[0] for v in res.get("viol", [])]
        for sig, case, detail in res.get("viol", []):
            print("  reproduced: %s\n    %s" % (sig, json.dumps(detail, default=repr, ensure_ascii=True)[:3000]))
        if rp.get("signature") in sigs:
            print("VIOLATION property=%s replay=%s" % (a.prop, a.replay))
            return 1
        print("not reproduced (signatures now: %s)" % sigs)
        return 0
    return mod.main(a.tier, seed, a.workers)


if __name__ == "__main__":
    sys.exit(main())
