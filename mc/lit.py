"""Literal value specs.

A *spec* is a short Python expression string evaluated in a fixed namespace of constructors. Cases (and replay
files) carry specs, never live objects, so every case is JSON-serialisable, human readable and re-creates fresh
objects each time it is executed.
"""
from __future__ import annotations

import datetime as _d
import pathlib
from zoneinfo import ZoneInfo


def dt(*a, tz=None, fold=0):
    """dt(y,m,d[,h,mi,s,us], tz=..) -> stdlib datetime (naive when tz is None)."""
    return _d.datetime(*a, tzinfo=tz, fold=fold)


def off(h=0, m=0, s=0, neg=False):
    delta = _d.timedelta(hours=h, minutes=m, seconds=s)
    return _d.timezone(-delta if neg else delta)


UTC = _d.timezone.utc

NS = {
    "dt": dt,
    "off": off,
    "UTC": UTC,
    "Z": ZoneInfo,
    "date": _d.date,
    "time": _d.time,
    "PWP": pathlib.PureWindowsPath,
    "PPP": pathlib.PurePosixPath,
    "nan": float("nan"),
    "inf": float("inf"),
    "S": lambda c, n: c * n,  # S('a', 65536)
    "__builtins__": {"True": True, "False": False, "None": None, "bytes": bytes, "float": float, "int": int,
                     "str": str, "range": range, "list": list, "tuple": tuple, "dict": dict, "chr": chr, "bytearray": bytearray,
                     "memoryview": memoryview, "set": set, "frozenset": frozenset, "object": object},
}

_code_cache: dict = {}


def register(name, obj):
    """Checks may add constructors (flow.record classes) to the spec namespace."""
    NS[name] = obj


def ev(spec: str):
    code = _code_cache.get(spec)
    if code is None:
        code = _code_cache[spec] = compile(spec, "<spec>", "eval")
    return eval(code, NS)


def install_flow():
    """Expose flow.record field classes to specs (called after flow.record is importable)."""
    from flow.record import fieldtypes as ft
    from flow.record.fieldtypes import net

    NS.update(
        {
            "ft": ft,
            "net": net,
            "posix_path": ft.posix_path,
            "windows_path": ft.windows_path,
            "posix_command": ft.posix_command,
            "windows_command": ft.windows_command,
            "fpath": ft.path,
            "fcommand": ft.command,
            "fdigest": ft.digest,
            "fip": net.ipaddress,
            "fnet": net.ipnetwork,
        }
    )
