"""Cases that need the library imported under a particular process environment.

flow.record reads FLOW_RECORD_TZ and FLOW_RECORD_IGNORE once, at import. A case carrying case["env"] = {VAR: value, ...} is
therefore executed in a child interpreter started with those variables (one child per environment for a whole batch; one child
per case when a replay file is re-run). The child runs the same run_case() of the same driver module.
"""
from __future__ import annotations

import json
import os
import subprocess
import sys

MARK = "VERIF_ENVLEG"


def _key(env):
    return json.dumps(env or {}, sort_keys=True)


def in_env(case):
    """True when this process was started for the environment the case asks for (or the case asks for none)."""
    env = case.get("env")
    return not env or os.environ.get(MARK) == _key(env)


def _tuplify(res):
    res["viol"] = [tuple(v) for v in res.get("viol", ())]
    return res


def _spawn(module, cases, env, workers):
    child_env = dict(os.environ)
    for k, v in env.items():
        if v is None:
            child_env.pop(k, None)
        else:
            child_env[k] = v
    child_env[MARK] = _key(env)
    p = subprocess.run([sys.executable, "-X", "utf8", "-W", "ignore", "-m", "mc.envworker", module, str(workers or 4)],
                       input="".join(json.dumps(c) + "\n" for c in cases), env=child_env, capture_output=True, text=True)
    if p.returncode != 0:
        raise RuntimeError("environment leg %s failed (rc=%s): %s" % (_key(env), p.returncode, p.stderr[-1500:]))
    return [_tuplify(json.loads(line)) for line in p.stdout.splitlines() if line.startswith("{")]


def explore_env(run, module, cases, env, workers=None):
    """Run every case (tagged with env) in one child interpreter started under env; accumulate into run."""
    cases = [dict(c, env=env) for c in cases]
    try:
        results = _spawn(module, cases, env, workers)
    except RuntimeError as e:
        run.internal_errors.append(str(e))
        return 0
    if len(results) != len(cases):
        run.internal_errors.append("environment leg %s returned %d results for %d cases" % (_key(env), len(results), len(cases)))
    for res in results:
        if "err" in res:
            run.internal_errors.append("harness error in environment leg %s: %s" % (_key(env), res["err"]))
        run.add_result(res)
        if res.get("sample") is not None:
            run.sample(res["sample"])
    run.extra.setdefault("environment_legs", []).append({"env": env, "cases": len(cases)})
    return len(results)


def run_single(module, case):
    """Replay path: one case in a child interpreter under its environment."""
    return _spawn(module, [case], case["env"], 1)[0]
