"""Independent reference codec for the RecordStream wire format (DESIGN C02).

Shares no code with flow.record and does not use the msgpack package. Decodes frames into *observation terms* (the
same vocabulary as mc.obs) and encodes observation terms back into frames, so both directions are judged on obs.

Format (from the property statement + the published constants):
  stream  := frame*            frame := >I length, one msgpack value
  header  := bin "RECORDSTREAM\\n"
  ext 14  := msgpack [subtype, payload]
     1 record     [[name, hash] | name, [values...]]     2 descriptor [name, [[type, fname]...]]
     0x10 datetime [y,m,d,H,M,S,us] (UTC) | [isotext]     0x11 varint [neg, big-endian magnitude]
     0x12 grouped [name, [[ident, values]...]]
  descriptor hash = first 4 bytes of sha256(name + "".join(fname + ftype))
"""
from __future__ import annotations

import datetime as _d
import hashlib
import ipaddress as _ip
import struct

MAGIC = b"RECORDSTREAM\n"
EXT = 14
T_RECORD, T_DESC, T_DATETIME, T_VARINT, T_GROUPED = 1, 2, 0x10, 0x11, 0x12
RESERVED = [("string", "_source"), ("string", "_classification"), ("datetime", "_generated"), ("varint", "_version")]


class FormatError(Exception):
    pass


class Ext:
    __slots__ = ("code", "data")

    def __init__(self, code, data):
        self.code, self.data = code, data


class Bin(bytes):
    """msgpack bin family (as opposed to str family)."""


# --------------------------------------------------------------------------------------------- msgpack subset

def mp_decode(buf, pos=0):
    """Decode one msgpack value -> (value, newpos). str -> str (surrogateescape), bin -> Bin, array -> tuple."""
    if pos >= len(buf):
        raise FormatError("truncated msgpack")
    b = buf[pos]
    pos += 1

    def need(n):
        if pos + n > len(buf):
            raise FormatError("truncated msgpack")

    if b <= 0x7F:
        return b, pos
    if b >= 0xE0:
        return b - 256, pos
    if 0x80 <= b <= 0x8F:
        return _map(buf, pos, b & 0x0F)
    if 0x90 <= b <= 0x9F:
        return _arr(buf, pos, b & 0x0F)
    if 0xA0 <= b <= 0xBF:
        n = b & 0x1F
        need(n)
        return buf[pos:pos + n].decode("utf-8", "surrogateescape"), pos + n
    if b == 0xC0:
        return None, pos
    if b == 0xC2:
        return False, pos
    if b == 0xC3:
        return True, pos
    if b in (0xC4, 0xC5, 0xC6):
        w = {0xC4: 1, 0xC5: 2, 0xC6: 4}[b]
        need(w)
        n = int.from_bytes(buf[pos:pos + w], "big")
        pos += w
        need(n)
        return Bin(buf[pos:pos + n]), pos + n
    if b in (0xC7, 0xC8, 0xC9):
        w = {0xC7: 1, 0xC8: 2, 0xC9: 4}[b]
        need(w + 1)
        n = int.from_bytes(buf[pos:pos + w], "big")
        pos += w
        code = struct.unpack("b", buf[pos:pos + 1])[0]
        pos += 1
        need(n)
        return Ext(code, bytes(buf[pos:pos + n])), pos + n
    if b == 0xCA:
        need(4)
        return struct.unpack(">f", buf[pos:pos + 4])[0], pos + 4
    if b == 0xCB:
        need(8)
        return struct.unpack(">d", buf[pos:pos + 8])[0], pos + 8
    if b in (0xCC, 0xCD, 0xCE, 0xCF):
        w = 1 << (b - 0xCC)
        need(w)
        return int.from_bytes(buf[pos:pos + w], "big"), pos + w
    if b in (0xD0, 0xD1, 0xD2, 0xD3):
        w = 1 << (b - 0xD0)
        need(w)
        return int.from_bytes(buf[pos:pos + w], "big", signed=True), pos + w
    if b in (0xD4, 0xD5, 0xD6, 0xD7, 0xD8):
        n = 1 << (b - 0xD4)
        need(n + 1)
        code = struct.unpack("b", buf[pos:pos + 1])[0]
        return Ext(code, bytes(buf[pos + 1:pos + 1 + n])), pos + 1 + n
    if b in (0xD9, 0xDA, 0xDB):
        w = {0xD9: 1, 0xDA: 2, 0xDB: 4}[b]
        need(w)
        n = int.from_bytes(buf[pos:pos + w], "big")
        pos += w
        need(n)
        return buf[pos:pos + n].decode("utf-8", "surrogateescape"), pos + n
    if b in (0xDC, 0xDD):
        w = 2 if b == 0xDC else 4
        need(w)
        return _arr(buf, pos + w, int.from_bytes(buf[pos:pos + w], "big"))
    if b in (0xDE, 0xDF):
        w = 2 if b == 0xDE else 4
        need(w)
        return _map(buf, pos + w, int.from_bytes(buf[pos:pos + w], "big"))
    raise FormatError("reserved msgpack byte 0x%02x" % b)


def _arr(buf, pos, n):
    out = []
    for _ in range(n):
        v, pos = mp_decode(buf, pos)
        out.append(v)
    return tuple(out), pos


def _map(buf, pos, n):
    out = {}
    for _ in range(n):
        k, pos = mp_decode(buf, pos)
        v, pos = mp_decode(buf, pos)
        out[k] = v
    return out, pos


def mp_one(buf):
    v, pos = mp_decode(buf, 0)
    if pos != len(buf):
        raise FormatError("trailing bytes after msgpack value (%d of %d)" % (pos, len(buf)))
    return v


def mp_encode(v, wide=False):
    """Encode; wide=True uses the widest length/integer classes (valid, non-minimal encodings)."""
    if v is None:
        return b"\xc0"
    if v is True:
        return b"\xc3"
    if v is False:
        return b"\xc2"
    if isinstance(v, Ext):
        n = len(v.data)
        c = struct.pack("b", v.code)
        if not wide and n in (1, 2, 4, 8, 16):
            return bytes([0xD4 + (1, 2, 4, 8, 16).index(n)]) + c + v.data
        if not wide and n < 256:
            return b"\xc7" + bytes([n]) + c + v.data
        if not wide and n < 65536:
            return b"\xc8" + n.to_bytes(2, "big") + c + v.data
        return b"\xc9" + n.to_bytes(4, "big") + c + v.data
    if isinstance(v, int):
        if wide:
            if -(2**63) <= v < 0:
                return b"\xd3" + v.to_bytes(8, "big", signed=True)
            if 0 <= v < 2**64:
                return b"\xcf" + v.to_bytes(8, "big")
            raise FormatError("int out of msgpack range")
        if 0 <= v <= 0x7F:
            return bytes([v])
        if -32 <= v < 0:
            return bytes([v + 256])
        if 0 <= v < 2**8:
            return b"\xcc" + bytes([v])
        if 0 <= v < 2**16:
            return b"\xcd" + v.to_bytes(2, "big")
        if 0 <= v < 2**32:
            return b"\xce" + v.to_bytes(4, "big")
        if 0 <= v < 2**64:
            return b"\xcf" + v.to_bytes(8, "big")
        if v >= 2**64:
            raise FormatError("int out of msgpack range")
        if -(2**7) <= v:
            return b"\xd0" + v.to_bytes(1, "big", signed=True)
        if -(2**15) <= v:
            return b"\xd1" + v.to_bytes(2, "big", signed=True)
        if -(2**31) <= v:
            return b"\xd2" + v.to_bytes(4, "big", signed=True)
        if -(2**63) <= v:
            return b"\xd3" + v.to_bytes(8, "big", signed=True)
        raise FormatError("int out of msgpack range")
    if isinstance(v, float):
        return b"\xcb" + struct.pack(">d", v)
    if isinstance(v, Bin) or isinstance(v, (bytes, bytearray)):
        n = len(v)
        if not wide and n < 256:
            return b"\xc4" + bytes([n]) + bytes(v)
        if not wide and n < 65536:
            return b"\xc5" + n.to_bytes(2, "big") + bytes(v)
        return b"\xc6" + n.to_bytes(4, "big") + bytes(v)
    if isinstance(v, str):
        raw = v.encode("utf-8", "surrogateescape")
        n = len(raw)
        if not wide and n < 32:
            return bytes([0xA0 | n]) + raw
        if not wide and n < 256:
            return b"\xd9" + bytes([n]) + raw
        if not wide and n < 65536:
            return b"\xda" + n.to_bytes(2, "big") + raw
        return b"\xdb" + n.to_bytes(4, "big") + raw
    if isinstance(v, (list, tuple)):
        n = len(v)
        body = b"".join(mp_encode(x, wide) for x in v)
        if not wide and n < 16:
            return bytes([0x90 | n]) + body
        if not wide and n < 65536:
            return b"\xdc" + n.to_bytes(2, "big") + body
        return b"\xdd" + n.to_bytes(4, "big") + body
    if isinstance(v, dict):
        n = len(v)
        body = b"".join(mp_encode(k, wide) + mp_encode(x, wide) for k, x in v.items())
        if not wide and n < 16:
            return bytes([0x80 | n]) + body
        if not wide and n < 65536:
            return b"\xde" + n.to_bytes(2, "big") + body
        return b"\xdf" + n.to_bytes(4, "big") + body
    raise FormatError("cannot encode %r" % type(v))


# --------------------------------------------------------------------------------------------- frames

def split_frames(data, strict=True):
    """-> list of (start, end, payload bytes). Raises FormatError on a torn frame when strict."""
    out = []
    pos = 0
    while pos < len(data):
        if pos + 4 > len(data):
            if strict:
                raise FormatError("torn length prefix at %d" % pos)
            break
        n = struct.unpack(">I", data[pos:pos + 4])[0]
        if pos + 4 + n > len(data):
            if strict:
                raise FormatError("torn frame body at %d" % pos)
            break
        out.append((pos, pos + 4 + n, data[pos + 4:pos + 4 + n]))
        pos += 4 + n
    return out


def frame(payload: bytes) -> bytes:
    return struct.pack(">I", len(payload)) + payload


def desc_hash(name, fields):
    data = name + "".join(fn + ft for ft, fn in fields)
    return int.from_bytes(hashlib.sha256(data.encode()).digest()[:4], "big")


# --------------------------------------------------------------------------------------------- wire value -> obs

CLS = {
    "string": "ft.string", "wstring": "ft.string", "uri": "ft.uri", "bytes": "ft.bytes", "varint": "ft.varint",
    "filesize": "ft.filesize", "unix_file_mode": "ft.unix_file_mode", "uint16": "ft.uint16", "uint32": "ft.uint32",
    "boolean": "ft.boolean", "float": "ft.float", "net.tcp.Port": "ft.net.tcp.port", "net.udp.Port": "ft.net.udp.port",
}


def _unext(v):
    """Resolve ext-14 scalar sub-types (datetime, varint) to python values; leaves records as ('REC', ...)."""
    if isinstance(v, Ext):
        if v.code != EXT:
            raise FormatError("unknown ext type %d" % v.code)
        inner = mp_one(v.data)
        if not (isinstance(inner, tuple) and len(inner) == 2):
            raise FormatError("ext 14 payload is not [subtype, value]")
        st, val = inner
        if st == T_VARINT:
            neg, mag = val
            if not isinstance(mag, Bin):
                raise FormatError("varint magnitude must be bin")
            n = int.from_bytes(mag, "big")
            return -n if neg else n
        if st == T_DATETIME:
            if len(val) == 7:
                return _d.datetime(*val, tzinfo=_d.timezone.utc)
            if len(val) == 1 and isinstance(val[0], str):
                x = _d.datetime.fromisoformat(val[0])
                return x if x.tzinfo else x.replace(tzinfo=_d.timezone.utc)
            raise FormatError("bad datetime payload")
        if st == T_RECORD:
            return ("REC", val)
        if st == T_GROUPED:
            return ("GROUPED", val)
        if st == T_DESC:
            return ("DESC", val)
        raise FormatError("unknown sub-type 0x%x" % st)
    return v


def raw_obs(v):
    """obs of a raw (untyped) wire value, as dynamic / loosely typed containers see it."""
    v = _unext(v)
    if v is None:
        return ["none"]
    if isinstance(v, bool):
        return ["bool", v]
    if isinstance(v, int):
        return ["int", "int", v]
    if isinstance(v, float):
        return ["float", "float", struct.pack(">d", v).hex()]
    if isinstance(v, Bin):
        return ["bytes", "bytes", v.hex()]
    if isinstance(v, str):
        return ["str", "str", v]
    if isinstance(v, _d.datetime):
        return dt_obs(v)
    if isinstance(v, tuple):
        return ["tuple", [raw_obs(x) for x in v]]
    if isinstance(v, dict):
        return ["dict", [[raw_obs(k), raw_obs(x)] for k, x in v.items()]]
    raise FormatError("unexpected raw %r" % (v,))


def dt_obs(x):
    off = x.utcoffset()
    o = off.days * 86400 + off.seconds + off.microseconds / 1e6
    return ["dt", "ft.datetime", [x.year, x.month, x.day, x.hour, x.minute, x.second, x.microsecond], o]


def path_obs(pair):
    if not (isinstance(pair, tuple) and len(pair) == 2 and isinstance(pair[0], str)):
        raise FormatError("path must be [str, flavour]")
    s, fl = pair
    if fl == 1:
        return ["path", "ft.windows_path", "windows", s]
    return ["path", "ft.posix_path", "posix", s]


class Decoder:
    """Stateful stream decoder: registry of descriptors keyed by identifier (and bare name)."""

    def __init__(self):
        self.reg = {}
        self.events = []  # ("HEADER",) | ("DESC", name, fields, ident) | ("REC", ident) | ("GROUPED", [idents])

    def value_obs(self, ftype, v):
        if ftype.endswith("[]"):
            if v is None:
                return ["none"]
            if not isinstance(v, tuple):
                raise FormatError("%s must be an array" % ftype)
            return ["list", "ft." + ftype, [self.value_obs(ftype[:-2], x) for x in v]]
        if ftype == "record":
            v = _unext(v)
            if v is None:
                return ["none"]
            if isinstance(v, tuple) and v and v[0] == "REC":
                return self.record_obs(v[1])
            if isinstance(v, tuple) and v and v[0] == "GROUPED":
                return self.grouped_obs(v[1])
            raise FormatError("record field holds %r" % (v,))
        if v is None:
            return ["none"]
        if ftype in ("string", "wstring", "uri"):
            if not isinstance(v, str):
                raise FormatError("%s must be msgpack str" % ftype)
            return ["str", CLS[ftype], v]
        if ftype == "bytes":
            if not isinstance(v, Bin):
                raise FormatError("bytes must be msgpack bin")
            return ["bytes", "ft.bytes", v.hex(), ["bytes", "bytes", v.hex()]]
        if ftype in ("varint", "filesize", "unix_file_mode"):
            v = _unext(v)
            if not isinstance(v, int):
                raise FormatError("%s must be int" % ftype)
            return ["int", CLS[ftype], int(v)]
        if ftype in ("uint16", "uint32", "boolean", "net.tcp.Port", "net.udp.Port"):
            v = _unext(v)
            if ftype == "boolean":
                if not isinstance(v, (bool, int)):
                    raise FormatError("boolean must be bool/int")
                return ["int", CLS[ftype], int(v), ["bool", bool(v)]]
            if isinstance(v, float):
                return ["int", CLS[ftype], int(v), raw_obs(v)]
            if not isinstance(v, int):
                raise FormatError("%s must be int" % ftype)
            return ["int", CLS[ftype], int(v), raw_obs(v)]
        if ftype == "float":
            v = _unext(v)
            if not isinstance(v, (int, float)) or isinstance(v, bool):
                raise FormatError("float must be float")
            return ["float", "ft.float", struct.pack(">d", float(v)).hex()]
        if ftype == "datetime":
            v = _unext(v)
            if isinstance(v, _d.datetime):
                return dt_obs(v)
            raise FormatError("datetime must be ext datetime, got %r" % (v,))
        if ftype == "digest":
            if not (isinstance(v, tuple) and len(v) == 3):
                raise FormatError("digest must be a 3-array")
            for x in v:
                if not (x is None or isinstance(x, Bin)):
                    raise FormatError("digest members must be bin or nil")
            return ["digest"] + [(x.hex() if x else None) for x in v]
        if ftype == "path":
            return path_obs(v)
        if ftype == "command":
            if not (isinstance(v, tuple) and len(v) == 2):
                raise FormatError("command must be [value, flavour]")
            val, fl = v
            flav = "windows" if fl == 1 else "posix"
            if val is None:
                return ["cmd", flav, ["none"], None]
            exe, args = val
            return ["cmd", flav, path_obs((exe, 1 if fl == 1 else 0)), [["str", "str", a] for a in args]]
        if ftype in ("net.ipaddress", "net.IPAddress"):
            v = _unext(v)
            if isinstance(v, bool) or not isinstance(v, (int, str)):
                raise FormatError("ipaddress must be int (or text)")
            a = _ip.ip_address(v)
            return ["ip", "ft.net.ip.ipaddress", a.version, int(a)]
        if ftype in ("net.ipnetwork", "net.IPNetwork"):
            if not isinstance(v, str):
                raise FormatError("ipnetwork must be str")
            n = _ip.ip_network(v)
            return ["net", "ft.net.ip.ipnetwork", n.version, n.compressed]
        if ftype == "net.ipv4.Address":
            if not isinstance(v, int):
                raise FormatError("ipv4 address must be int")
            return ["ip4", "ft.net.ipv4.address", v]
        if ftype == "stringlist":
            return ["list", "ft.stringlist", [raw_obs(x) for x in v]]
        if ftype == "dictlist":
            return ["list", "ft.dictlist", [raw_obs(x) for x in v]]
        if ftype == "dynamic":
            w = _unext(v)
            if isinstance(w, Bin):
                return ["bytes", "ft.bytes", w.hex(), ["bytes", "bytes", w.hex()]]
            if isinstance(w, str):
                return ["str", "ft.string", w]
            if isinstance(w, bool):
                return ["int", "ft.boolean", int(w), ["bool", w]]
            if isinstance(w, int):
                return ["int", "ft.varint", w]
            if isinstance(w, _d.datetime):
                return dt_obs(w)
            if isinstance(w, tuple) and not (w and w[0] in ("REC", "GROUPED", "DESC")):
                return ["list", "ft.stringlist", [raw_obs(x) for x in w]]
            raise FormatError("dynamic holds unsupported %r" % (w,))
        raise FormatError("unknown field type %s" % ftype)

    def lookup(self, ident):
        if isinstance(ident, tuple):
            if len(ident) != 2:
                raise FormatError("bad identifier")
            key = (_text(ident[0]), ident[1])
        else:
            key = _text(ident)
        if key not in self.reg:
            raise FormatError("record %r before its descriptor" % (key,))
        return key, self.reg[key]

    def record_obs(self, val):
        ident, values = val
        key, (name, fields) = self.lookup(ident)
        nres = len(RESERVED)
        exp = len(fields) + nres
        values = tuple(values)
        if len(values) > exp:
            values = values[:exp - 1] + (values[-1],)
        allf = list(fields) + RESERVED
        slots = []
        for i, (ft_, fn) in enumerate(allf):
            if i < len(values):
                v = values[i]
                if fn == "_version":
                    v = None  # the reader stamps the version of the release that reads; the wire value is advisory
                o = self.value_obs(ft_, v)
            else:
                o = ["none"]
            if o == ["none"]:
                if ft_.endswith("[]"):
                    o = ["list", "ft." + ft_, []]
                elif ft_ == "digest":
                    o = ["digest", None, None, None]
                elif fn == "_version":
                    o = ["int", "ft.varint", 1]
                elif fn == "_generated":
                    o = ["generated-now"]
            slots.append([fn, o])
        self.last_key = key
        return ["rec", name, [list(f) for f in fields], slots]

    def grouped_obs(self, val):
        name, members = val
        out = []
        keys = []
        for m in members:
            out.append(self.record_obs(m))
            keys.append(self.last_key)
        self.last_keys = keys
        return ["grouped", name, out]

    def feed_payload(self, payload):
        """One frame payload -> None | obs of a record. Updates registry and events."""
        v = mp_one(payload)
        if isinstance(v, Bin) and bytes(v) == MAGIC:
            self.events.append(("HEADER",))
            return None
        w = _unext(v)
        if isinstance(w, tuple) and w and w[0] == "DESC":
            name, fields = w[1]
            name = _text(name)
            fields = [(_text(f[0]), _text(f[1])) for f in fields]
            ident = (name, desc_hash(name, fields))
            self.reg[ident] = (name, fields)
            self.reg[name] = (name, fields)
            self.events.append(("DESC", name, fields, ident))
            return None
        if isinstance(w, tuple) and w and w[0] == "REC":
            o = self.record_obs(w[1])
            self.events.append(("REC", self.last_key))
            return o
        if isinstance(w, tuple) and w and w[0] == "GROUPED":
            o = self.grouped_obs(w[1])
            self.events.append(("GROUPED", self.last_keys))
            return o
        raise FormatError("unexpected top-level frame value %r" % (type(v),))


def _text(x):
    """Names may arrive as msgpack bin (older writers): the format's names are UTF-8 text either way."""
    return bytes(x).decode("utf-8") if isinstance(x, Bin) else x


def decode_stream(data, strict=True):
    """-> (list of record obs, decoder). Requires the header first."""
    frames = split_frames(data, strict=strict)
    if not frames:
        raise FormatError("empty stream")
    dec = Decoder()
    out = []
    for i, (_, _, payload) in enumerate(frames):
        o = dec.feed_payload(payload)
        if i == 0 and dec.events[:1] != [("HEADER",)]:
            raise FormatError("first frame is not the header")
        if o is not None:
            out.append(o)
    return out, dec


# --------------------------------------------------------------------------------------------- obs -> wire

def _big(n):
    neg = n < 0
    m = abs(n)
    return Ext(EXT, mp_encode([T_VARINT, [neg, Bin(m.to_bytes((m.bit_length() + 7) // 8, "big"))]]))


def enc_int(n, wide=False):
    if -(2**63) <= n < 2**64:
        return n
    return _big(n)


def enc_dt(o, wide=False):
    (y, mo, d, h, mi, s, us), off = o[2], o[3]
    if off == 0:
        return Ext(EXT, mp_encode([T_DATETIME, [y, mo, d, h, mi, s, us]], wide))
    tz = _d.timezone(_d.timedelta(seconds=off))
    return Ext(EXT, mp_encode([T_DATETIME, [_d.datetime(y, mo, d, h, mi, s, us, tzinfo=tz).isoformat()]], wide))


class Encoder:
    def __init__(self, wide=False, extra_reserved=0, drop_version=False, bare_ident=False, bin_names=False):
        self.wide = wide
        self.bin_names = bin_names  # names as msgpack bin (what a Python 2 era writer produced for str)
        self.extra = extra_reserved
        self.drop_version = drop_version
        self.bare = bare_ident
        self.announced = set()
        self.out = []

    def header(self):
        self.out.append(frame(mp_encode(Bin(MAGIC))))

    def value(self, o):
        tag = o[0]
        if tag == "none":
            return None
        if tag == "bool":
            return o[1]
        if tag == "int":
            if len(o) > 3:  # uint16/uint32/boolean: the wire carries .value
                return self.value(o[3])
            return enc_int(o[2])
        if tag == "float":
            return struct.unpack(">d", bytes.fromhex(o[2]))[0]
        if tag == "str":
            return o[2]
        if tag == "bytes":
            return Bin(bytes.fromhex(o[2]))
        if tag == "dt":
            return enc_dt(o, self.wide)
        if tag == "path":
            return [o[3], 1 if o[2] == "windows" else 0]
        if tag == "cmd":
            fl = 1 if o[1] == "windows" else 0
            if o[2] == ["none"]:
                return [None, fl]
            return [[o[2][3], [a[2] for a in (o[3] or [])]], fl]
        if tag == "ip":
            return enc_int(o[3]) if not (o[2] == 6 and o[3] < 2**32) else str(_ip.IPv6Address(o[3]))
        if tag == "net":
            return o[3]
        if tag == "ip4":
            return o[2]
        if tag == "digest":
            return [Bin(bytes.fromhex(x)) if x else None for x in o[1:4]]
        if tag in ("list", "tuple"):
            return [self.value(x) for x in (o[2] if tag == "list" else o[1])]
        if tag == "dict":
            return {self.value(k): self.value(v) for k, v in o[1]}
        if tag == "rec":
            self.announce(o)
            return Ext(EXT, mp_encode([T_RECORD, self.rec_payload(o)], self.wide))
        raise FormatError("cannot encode obs %s" % tag)

    def ident(self, o):
        fields = [(f[0], f[1]) for f in o[2]]
        if self.bare:
            return self._n(o[1])
        return [self._n(o[1]), desc_hash(o[1], fields)]

    def _n(self, text):
        return Bin(text.encode("utf-8")) if self.bin_names else text

    def rec_payload(self, o):
        vals = [self.value(v) for _, v in o[3]]
        if self.extra:
            # metadata of a later release: any values, not only None or numbers
            vals = vals[:-1] + ["tlp:amber", [1, "x"], None][: self.extra] + [None] * max(0, self.extra - 3) + vals[-1:]
        if self.drop_version:
            vals = vals[:-1]
        return [self.ident(o), vals]

    def announce(self, o):
        """Emit DESC frames for o and for every record nested in it (nested first)."""
        if o[0] == "grouped":
            for m in o[2]:
                self.announce(m)
            return
        if o[0] != "rec":
            return
        for _, v in o[3]:
            self._announce_in(v)
        key = (o[1], tuple(tuple(f) for f in o[2]))
        if key not in self.announced:
            self.announced.add(key)
            self.out.append(frame(mp_encode(Ext(EXT, mp_encode([T_DESC, [self._n(o[1]), [[self._n(x) for x in f] for f in o[2]]]], self.wide)), self.wide)))

    def _announce_in(self, v):
        if v[0] == "rec":
            self.announce(v)
        elif v[0] == "list":
            for x in v[2]:
                self._announce_in(x)

    def record(self, o):
        self.announce(o)
        if o[0] == "grouped":
            payload = [T_GROUPED, [o[1], [self.rec_payload(m) for m in o[2]]]]
        else:
            payload = [T_RECORD, self.rec_payload(o)]
        self.out.append(frame(mp_encode(Ext(EXT, mp_encode(payload, self.wide)), self.wide)))

    def getvalue(self):
        return b"".join(self.out)


def encode_stream(obs_records, **variant):
    repeat_desc = variant.pop("repeat_desc", False)
    repeat_header = variant.pop("repeat_header", False)
    enc = Encoder(**variant)
    enc.header()
    for i, o in enumerate(obs_records):
        if repeat_desc:
            enc.announced.clear()
        if repeat_header and i == 1:
            enc.header()
            enc.announced.clear()
        enc.record(o)
    return enc.getvalue()
