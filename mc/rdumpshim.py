"""In-process rdump.main(argv) with captured stdout/stdin (used by C08, C16, C11)."""
from __future__ import annotations

import io
import logging
import sys


class _Std:
    """Text stream with a binary .buffer, like sys.stdout / sys.stdin."""

    def __init__(self, data=b""):
        self.buffer = io.BytesIO(data)
        self._text = io.TextIOWrapper(self.buffer, encoding="utf-8", errors="surrogateescape", newline="", write_through=True)

    def write(self, s):
        return self._text.write(s)

    def read(self, *a):
        return self._text.read(*a)

    def readline(self, *a):
        return self._text.readline(*a)

    def __iter__(self):
        return iter(self._text)

    def flush(self):
        try:
            self._text.flush()
        except ValueError:
            pass

    def isatty(self):
        return False

    def fileno(self):
        raise io.UnsupportedOperation("fileno")

    def seekable(self):
        return False

    def close(self):
        pass

    def getvalue(self):
        self.flush()
        return self.buffer.getvalue()


def run_rdump(argv, stdin=b""):
    """-> (exit code or exception, stdout bytes, stderr text)"""
    from flow.record.tools import rdump

    logging.disable(logging.CRITICAL)
    old = sys.stdout, sys.stdin, sys.stderr
    out, inp, err = _Std(), _Std(stdin), io.StringIO()
    sys.stdout, sys.stdin, sys.stderr = out, inp, err
    rc = None
    try:
        try:
            rc = rdump.main(list(argv))
        except SystemExit as e:
            rc = e.code if isinstance(e.code, int) else 1
        except Exception as e:  # noqa: BLE001
            rc = e
    finally:
        sys.stdout, sys.stdin, sys.stderr = old
        logging.disable(logging.NOTSET)
    return rc, out.getvalue(), err.getvalue()
