"""Run bookkeeping: counters, violations grouped by signature, known findings, replay files, evidence."""
from __future__ import annotations

import fnmatch
import hashlib
import json
import os
import sys
import time

ROOT = os.path.dirname(os.path.dirname(os.path.abspath(__file__)))
EVIDENCE_SCHEMA = "/root/.vp/EVIDENCE.schema.json"


def validate_json(path, schema):
    """Returns None if valid (or no validator available), else an error text."""
    import shutil
    import subprocess

    vt = shutil.which("python3-vt") or "/opt/veriftools/pyvenv/bin/python"
    if not os.path.exists(vt) or not os.path.exists(schema):
        return None
    r = subprocess.run([vt, os.path.join(ROOT, "tools", "validate.py"), path, schema], capture_output=True, text=True)
    if r.returncode != 0:
        return (r.stderr.strip().splitlines() or ["invalid"])[-1] + " | " + r.stderr[:200]
    return None


def jhash(obj) -> str:
    return hashlib.sha256(json.dumps(obj, sort_keys=True, default=repr, ensure_ascii=True).encode()).hexdigest()[:16]


class Run:
    def __init__(self, prop, level, tier, seed, rule):
        self.prop = prop
        self.level = level
        self.tier = tier
        self.seed = seed
        self.rule = rule
        self.t0 = time.time()
        self.evaluations = 0
        self.case_hashes = set()
        self.nontrivial_hashes = set()
        self.outcomes = {}  # outcome key -> count
        self.samples = []
        self.violations = {}  # signature -> {count, case, detail}
        self.extra = {}
        self.assumptions = []
        self.exhaustive = True
        self.caps = []
        self.states = None
        self.transitions = None
        self.traces = None
        self.internal_errors = []
        self.state_hashes = set()

    # ---- accumulation -------------------------------------------------
    def add_result(self, res):
        """res: dict(ev=int, h=case hash, nt=bool, out=str, viol=[(sig, case, detail)], sample=case|None)"""
        self.evaluations += res.get("ev", 1)
        h = res.get("h")
        if h is not None:
            self.case_hashes.add(h)
            if res.get("nt", True):
                self.nontrivial_hashes.add(h)
        out = res.get("out")
        if out is not None:
            if isinstance(out, (list, tuple)) and not isinstance(out, str):
                for o in out:
                    self.outcomes[o] = self.outcomes.get(o, 0) + 1
            else:
                self.outcomes[out] = self.outcomes.get(out, 0) + 1
        for sig, case, detail in res.get("viol", ()):
            self.add_violation(sig, case, detail)
        for st in res.get("states", ()):
            self.state_hashes.add(st)
        for k, v in res.get("count", {}).items():
            self.extra[k] = self.extra.get(k, 0) + v

    def add_violation(self, sig, case, detail):
        v = self.violations.get(sig)
        if v is None:
            self.violations[sig] = {"count": 1, "case": case, "detail": detail}
        else:
            v["count"] += 1

    def sample(self, case):
        if len(self.samples) < 6:
            self.samples.append(case)

    def cap(self, text):
        self.exhaustive = False
        self.caps.append(text)

    # ---- finishing -----------------------------------------------------
    def _known(self):
        path = os.path.join(ROOT, "known_findings.json")
        try:
            with open(path) as f:
                data = json.load(f)
        except FileNotFoundError:
            return []
        return [e for e in data.get("findings", []) if e.get("property") == self.prop]

    def finish(self, replay_fn=None):
        known = [e for e in self._known() if e.get("status") == "known"]
        real = []
        known_hit = []
        for sig, v in sorted(self.violations.items()):
            hit = None
            for e in known:
                if fnmatch.fnmatchcase(sig, e["signature"]):
                    hit = e
                    break
            if hit:
                known_hit.append((sig, v, hit))
            else:
                real.append((sig, v))

        # replay discipline: a violation must reproduce identically from its case alone
        if replay_fn is not None:
            for sig, v in real[:20]:
                try:
                    sigs2 = replay_fn(v["case"])
                except Exception as e:  # noqa: BLE001
                    sigs2 = ["<replay raised %s: %s>" % (type(e).__name__, e)]
                if sig not in sigs2:
                    self.internal_errors.append(
                        "nondeterministic counterexample: signature %s not reproduced on replay (got %s)" % (sig, sigs2[:5])
                    )

        printed = set()
        for sig, v, e in known_hit:
            key = e["signature"]
            if key in printed:
                continue
            printed.add(key)
            print("KNOWN-FINDING: property=%s %s [%s]" % (self.prop, e.get("what", ""), key))

        # runs against a scratch copy of the repository (mutation / seed demonstrations) must not touch the evidence and
        # replay files of the real tree
        foreign = os.path.realpath(os.environ.get("VERIF_REPO", "/repo")) != "/repo"
        outroot = os.path.join(ROOT, ".scratch", "foreign-%d" % os.getpid()) if foreign else ROOT
        rdir = os.path.join(outroot, "replays", self.prop)
        if os.path.isdir(rdir):
            for fn in os.listdir(rdir):
                if fn.endswith(".json"):
                    os.unlink(os.path.join(rdir, fn))
        for sig, v in real:
            os.makedirs(rdir, exist_ok=True)
            path = os.path.join(rdir, jhash(sig) + ".json")
            with open(path, "w") as f:
                json.dump({"property": self.prop, "signature": sig, "count": v["count"], "case": v["case"],
                           "detail": v["detail"]}, f, indent=1, default=repr, ensure_ascii=True)
            print("VIOLATION property=%s replay=%s" % (self.prop, path))
            print("  signature: %s (x%d)" % (sig, v["count"]))
            d = json.dumps(v["detail"], default=repr, ensure_ascii=True)
            print("  detail: %s" % (d[:1500]))

        wall = time.time() - self.t0
        cov = {
            "evaluations": self.evaluations,
            "distinct_cases": len(self.case_hashes),
            "distinct_nontrivial": len(self.nontrivial_hashes),
            "rule": self.rule,
            "samples": self.samples or [],
            "exhaustive": bool(self.exhaustive),
            "distinct_outcomes": len(self.outcomes),
            "outcome_histogram_top": dict(sorted(self.outcomes.items(), key=lambda kv: -kv[1])[:25]),
            "caps_hit": self.caps,
            "known_findings_seen": sorted({e["signature"] for _, _, e in known_hit}),
            "violation_signatures": [s for s, _ in real][:50],
        }
        if self.states is not None:
            cov["states"] = self.states
            cov["transitions"] = self.transitions
            cov["traces_validated_against_impl"] = self.traces if self.traces is not None else self.transitions
        cov.update(self.extra)
        ev = {
            "property_id": self.prop,
            "tier": self.tier,
            "seed": self.seed,
            "level": self.level,
            "coverage": cov,
            "assumptions": self.assumptions,
            "wall_s": round(wall, 3),
            "violations": len(real),
        }
        os.makedirs(os.path.join(outroot, "evidence"), exist_ok=True)
        epath = os.path.join(outroot, "evidence", self.prop + ".json")
        with open(epath, "w") as f:
            json.dump(ev, f, indent=1, default=repr, ensure_ascii=True)

        rc = 1 if real else 0
        # validate evidence (jsonschema lives in the tooling venv, not in /venv)
        err = validate_json(epath, EVIDENCE_SCHEMA)
        if err:
            self.internal_errors.append("evidence does not validate: %s" % err[:300])

        # vacuity self-check
        if self.evaluations > 50 and len(self.outcomes) <= 1 and not self.extra.get("vacuity_ok"):
            self.internal_errors.append("vacuous run: %d evaluations, %d outcome(s)" % (self.evaluations, len(self.outcomes)))

        print(
            "%s tier=%s seed=%d: evaluations=%d distinct=%d nontrivial=%d outcomes=%d%s known=%d violations=%d exhaustive=%s wall=%.1fs"
            % (self.prop, self.tier, self.seed, self.evaluations, len(self.case_hashes), len(self.nontrivial_hashes),
               len(self.outcomes),
               (" states=%d transitions=%d" % (self.states, self.transitions)) if self.states is not None else "",
               len(printed), len(real), self.exhaustive, wall)
        )
        if foreign:
            import shutil

            shutil.rmtree(outroot, ignore_errors=True)
        for e in self.internal_errors[:5]:
            print("INTERNAL-ERROR: %s" % e[:1500], file=sys.stderr)
        if len(self.internal_errors) > 5:
            print("INTERNAL-ERROR: ... and %d more" % (len(self.internal_errors) - 5), file=sys.stderr)
        if rc == 0 and self.internal_errors:
            rc = 2
        return rc
