"""Selector program grammar (DESIGN C07), enumerated completely per size class, and the record alphabet."""
from __future__ import annotations

import itertools

from .recs import rs

FIELDS = [["varint", "n"], ["varint", "m"], ["string", "s"], ["string", "t"], ["float", "f"], ["boolean", "b"], ["string[]", "l"],
          ["path", "p"], ["net.ipaddress", "ip"], ["net.ipnetwork", "nw"], ["uri", "u"], ["string", "none"], ["record", "sub"]]
SUB = lambda s, n: rs("sel/sub", [["string", "s"], ["varint", "n"], ["uri", "u2"]], [s, n, "'http://sub.example/x/inner.bin'"])  # noqa: E731


def rec(n, m, s, t, f, b, l, p, ip, nw, u, none, sub):  # noqa: E741
    return rs("sel/rec", FIELDS, [n, m, s, t, f, b, l, p, ip, nw, u, none, sub])


RECORDS = [
    rec("1", "3", "'a'", "'ab'", "1.5", "True", "['a','b']", "'/bin/a'", "'1.2.3.4'", "'10.0.0.0/8'", "'http://h.example/d/a.txt'", "None", SUB("'a'", "1")),
    rec("100", "3", "'A'", "'a'", "0.0", "False", "['A']", "'/a'", "'10.1.2.3'", "'1.2.3.0/24'", "'https://u:p@a/ab'", "None", SUB("'zz'", "3")),
    rec("3", "3", "'ab'", "'ab'", "3.0", "True", "['ab','ab']", "'ab'", "'1.2.3.4'", "'1.2.3.4/32'", "'ab'", "None", None),
    rec("0", "1", "''", "'a'", "-1.5", "False", "[]", "''", "'0.0.0.0'", "'0.0.0.0/0'", "''", "None", SUB("''", "0")),
    rec("None", "None", "None", "None", "None", "None", "None", "None", "None", "None", "None", "None", None),
    rec("10", "1", "'a b'", "'B A'", "10.0", "True", "['a b', '']", "'/x/a b'", "'2001:db8::1'", "'2001:db8::/32'", "'ftp://[::1]/a'", "None", SUB("'A'", "10")),
    rec("1000", "-1", "'\\xe9'", "'\\udc80'", "1e300", "True", "['\\xe9']", "windows_path('C:\\\\a\\\\b')", "'255.255.255.255'", "'10.0.0.0/8'", "'C:\\\\x'", "None", SUB("'ab'", "100")),
    rec("1", "1", "'ab'", "'A'", "1.5", "False", "['a']", "'/bin/a'", "'::1'", "'::/0'", "'http://a'", "None", SUB("'a'", "1")),
]

# same type name as RECORDS' descriptor but other fields (descriptor-keyed caches must not confuse the two)
SAME_NAME_OTHER_FIELDS = rs("sel/rec", [["string", "extra"], ["varint", "n"], ["uri", "link"], ["string", "s"]], ["'ab'", "3", "'http://x/a.txt'", "'zz'"])

# same type name AND field names, other field types (what plain JSON lines {"n": 1} / {"n": "a"} become): caches keyed on names only
SAME_NAMES_OTHER_TYPES = rs("sel/rec", [["string", "n"], ["varint", "m"], ["varint", "s"], ["string", "t"], ["string", "f"], ["varint", "b"], ["string[]", "l"],
                                        ["string", "p"], ["string", "ip"], ["string", "nw"], ["string", "u"], ["string", "none"], ["record", "sub"]],
                            ["'a'", "3", "1", "'ab'", "'a'", "1", "['a','b']", "'a'", "'a'", "'ab'", "'a'", "None", None])

# a string / uri / varint value two levels down, below records that have no field of those types themselves
DEEP = rs("sel/outer", [["boolean", "flag"], ["record", "sub"]],
          ["True", rs("sel/mid", [["boolean", "flag"], ["record[]", "kids"]], ["False", [SUB("'a'", "3"), SUB("'ab'", "1")]])])
# two types of one name whose (name, hash) identifiers coincide (the hash covers the concatenated field names and types only)
TWIN1 = rs("sel/twin", [["stringlist", "a"], ["string", "b"]], ["['a', 'ab']", "'a'"])
TWIN2 = rs("sel/twin", [["string", "a"], ["string", "listb"]], ["'zz'", "'ab'"])

INT = ["r.n", "r.m", "0", "1", "3", "10"]
FLT = ["r.f", "1.5"]
STR = ["r.s", "r.t", "'a'", "'A'", "'ab'", "''"]
BOOL = ["r.b", "True", "False"]
NONE = ["None", "r.none"]
LST = ["r.l", "['a', 'b']", "('a',)", "[r.s, 'ab']", "[]", "[1, 3]", "(r.n, r.m)", "['1.2.3.4', '10.0.0.0/8', '/bin/a']", "(1, '10.1.2.3', '::1')"]
OTHER = ["b'a'", "r.p", "r.ip", "r.nw", "r.u", "r.u.netloc", "r.u.filename", "r.sub.s", "r.sub.n", "r.sub"]
CONS = ["net.ipaddress('1.2.3.4')", "net.ipnetwork('10.0.0.0/8')", "net.ipv4.Subnet('1.2.3.0/24')", "string('a')", "varint(3)",
        "net.ipnetwork('::/0')"]
TYPES = ["Type.string", "Type.varint", "Type.uri.filename", "Type.net.ipaddress", "Type.float", "Type.net", "Type.nope", "Type.uri.netloc",
         "Type.path", "Type.boolean"]
ATOMS = INT + FLT + STR + BOOL + NONE + LST + OTHER + CONS
RED = ["r.n", "r.m", "1", "3", "r.s", "'a'", "r.f", "r.b", "None", "r.l", "r.sub.s"]  # reduced atom set for class 3
CMP = ["==", "!=", "<", "<=", ">", ">=", "in", "not in", "is", "is not"]
ORD = ["<", "<=", "==", "!=", ">", ">="]
BIN_L = ["+", "*", "/", "%", "&", "|"]
BIN_X = ["-", "//", "**", "^", "<<", ">>"]

CALLS = [
    "lower(r.s)", "upper(r.s)", "lower(r.n)", "upper(r.t)", "name(r)", "names(r)", "get_type(r.n)", "get_type(r.s)", "has_field(r, 'n')",
    "has_field(r, 'zz')", "has_field(r, '_source')", "str(r.n)", "repr(r.s)", "str(r.ip)", "str(r.p)",
    "field_contains(r, ['s', 't'], ['a'])", "field_contains(r, ['s'], ['A'], nocase=False)", "field_contains(r, ['s', 'zz'], ['b'])",
    "field_contains(r, ['t'], ['a'], word_boundary=True)", "field_contains(r, ['t'], ['A'], nocase=False, word_boundary=True)",
    "field_contains(r, Type.string, ['ab'])", "field_contains(r, fields=['s'], strings=['a'])",
    "field_equals(r, ['s', 't'], ['A'])", "field_equals(r, ['s'], ['A'], nocase=False)", "field_equals(r, ['zz', 't'], ['ab'])",
    "field_equals(r, Type.string, ['a'])", "field_equals(r, ['n'], [1])",
    "lower(r.l) == ['a']", "upper(r.l) == ['A']", "lower(r.l) == r.l", "'a' in lower(r.l)", "field_contains(r, ['l'], ['a'])", "field_equals(r, ['l'], ['a'])",
    "field_contains(r, ['l', 's'], ['A'], nocase=False)", "any(f.name == 'extra' for f in fields('string'))", "any(f.name == 's' for f in fields('string'))",
    "any(f.typename == 'uri' for f in fields('uri'))", "all(f.name != 'link' for f in fields('uri'))",
    "field_regex(r, ['s', 't'], 'a+b')", "field_regex(r, ['t'], '^A$')", "field_regex(r, ['zz', 's'], '.')", "field_regex(r, Type.string, 'b$')",
    # fields that exist but hold a falsy value: 0, '', None, False, [] (RECORDS[3] and RECORDS[4])
    "field_equals(r, ['n'], [0])", "field_equals(r, ['s'], [''])", "field_equals(r, ['none', 's'], [None])", "field_equals(r, ['b'], [False])",
    "field_equals(r, ['f'], [0.0])", "field_contains(r, ['s'], [''])", "field_contains(r, ['s', 't'], ['a', ''])", "field_contains(r, ['none'], [None], word_boundary=True)",
    "field_regex(r, ['s'], '^$')", "field_regex(r, ['s', 'p'], '^$')", "field_equals(r, ['l'], [[]])", "field_contains(r, ['p'], [''])",
]
# helper x option x letter-case product (the search strings carry upper-case letters, the fields hold mixed case)
HELPER_OPTS = []
for _h in ("field_contains", "field_equals"):
    for _f in ("['s']", "['t']", "['s', 't']", "['l']", "Type.string", "['zz', 't']"):
        for _s in ("['A']", "['a']", "['B A']", "['b']", "['AB', 'x']", "['A B']"):
            for _o in ("", ", nocase=True", ", nocase=False", ", word_boundary=True", ", word_boundary=False", ", nocase=True, word_boundary=True",
                       ", nocase=False, word_boundary=True"):
                if _h == "field_equals" and "word_boundary" in _o:
                    continue
                HELPER_OPTS.append("%s(r, %s, %s%s)" % (_h, _f, _s, _o))
for _f in ("['s']", "['t']", "['s', 't']", "Type.string"):
    for _rx in ("'^A'", "'b a'", "'B A$'", "'(?i)b a'", "'A|z'"):
        HELPER_OPTS.append("field_regex(r, %s, %s)" % (_f, _rx))

# case mapping beyond ASCII: lower()/upper() are str.lower()/str.upper(), not casefold
HELPER_OPTS += ["lower('Stra\u00dfe') == 'stra\u00dfe'", "lower('Stra\u00dfe') == 'strasse'", "upper('stra\u00dfe') == 'STRASSE'", "lower('\u03a3\u0391\u03a3') == '\u03c3\u03b1\u03c2'",
                "lower('\u0130') == 'i\u0307'", "lower('\ufb01') == '\ufb01'", "field_equals(r, ['s'], ['\u00df'])", "field_contains(r, ['s', 't'], ['STRA\u00dfE'])",
                "'\u00df' in lower('GRO\u00dfE')", "lower(r.s) == lower('A')", "upper('\u0131') == 'I'"]

# membership in literal lists / tuples of 9 and more constants (a length class of its own for an implementation)
LONG_LITERALS = [
    "r.ip in ['9.9.9.1', '9.9.9.2', '9.9.9.3', '9.9.9.4', '9.9.9.5', '9.9.9.6', '9.9.9.7', '9.9.9.8', '1.2.3.4']",
    "r.ip not in ('9.9.9.1', '9.9.9.2', '9.9.9.3', '9.9.9.4', '9.9.9.5', '9.9.9.6', '9.9.9.7', '9.9.9.8', '9.9.9.9', '10.1.2.3')",
    "r.p in ['/q1', '/q2', '/q3', '/q4', '/q5', '/q6', '/q7', '/q8', '/bin/a', '/a']",
    "r.n in [11, 12, 13, 14, 15, 16, 17, 18, 19, 1, 100]", "r.n not in (11, 12, 13, 14, 15, 16, 17, 18, 19, 3)",
    "r.s in ['q1', 'q2', 'q3', 'q4', 'q5', 'q6', 'q7', 'q8', 'q9', 'a', 'ab']", "r.f in [0.5, 2.5, 3.5, 4.5, 5.5, 6.5, 7.5, 8.5, 9.5, 1.5]",
    "r.b in [2, 3, 4, 5, 6, 7, 8, 9, 10, 1]", "r.nw in ['1.0.0.0/8', '2.0.0.0/8', '3.0.0.0/8', '4.0.0.0/8', '5.0.0.0/8', '6.0.0.0/8', '7.0.0.0/8', '8.0.0.0/8', '10.0.0.0/8']",
    "r.u in ['u1', 'u2', 'u3', 'u4', 'u5', 'u6', 'u7', 'u8', 'u9', 'ab']", "r.l in [1, 2, 3, 4, 5, 6, 7, 8, 9]", "r.zz in [1, 2, 3, 4, 5, 6, 7, 8, 9]",
    "r.none in [1, 2, 3, 4, 5, 6, 7, 8, None]", "Type.string in ['q1', 'q2', 'q3', 'q4', 'q5', 'q6', 'q7', 'q8', 'q9', 'ab']",
    "Type.net.ipaddress in ['9.9.9.1', '9.9.9.2', '9.9.9.3', '9.9.9.4', '9.9.9.5', '9.9.9.6', '9.9.9.7', '9.9.9.8', '1.2.3.4']",
    "r.sub.n in [11, 12, 13, 14, 15, 16, 17, 18, 19, 1]",
]
for _n in (2, 3, 4, 5, 6, 7, 8, 15, 16, 17, 33, 64, 65, 129, 257, 1025):
    _fill = ", ".join("'9.9.9.%d'" % i for i in range(_n - 1))
    LONG_LITERALS += ["r.ip in [%s, '1.2.3.4']" % _fill, "r.ip not in (%s, '10.1.2.3')" % _fill, "r.nw in [%s, '10.0.0.0/8']" % _fill.replace("9.9.9.", "9.9.0.0/")]
# the helpers with candidate lists / field lists of growing size (a scan may become a lookup table beyond some length): the match is
# the last candidate; fields whose values equal their text form without hashing like it (addresses, networks, paths) included
HELPER_SIZES = []
for _n in (1, 2, 7, 8, 9, 15, 16, 17, 32, 33, 64, 65, 129, 257, 1025):
    _fill = ", ".join("'q%d'" % i for i in range(_n - 1))
    _sep = ", " if _n > 1 else ""
    for _fields, _hit in (("['ip']", "'1.2.3.4'"), ("['nw']", "'10.0.0.0/8'"), ("['s']", "'A'"), ("['p']", "'/bin/a'"), ("['u', 's']", "'ab'"), ("['l']", "'a'"),
                          ("['ip', 's', 'p', 'nw']", "'10.1.2.3'"), ("Type.net.ipaddress", "'1.2.3.4'"), ("Type.string", "'ab'")):
        HELPER_SIZES.append("field_equals(r, %s, [%s%s%s])" % (_fields, _fill, _sep, _hit))
        if _n in (1, 8, 16, 17, 65, 257):
            HELPER_SIZES.append("field_equals(r, %s, [%s%s%s], nocase=False)" % (_fields, _fill, _sep, _hit))
            HELPER_SIZES.append("field_contains(r, %s, [%s%s%s])" % (_fields, _fill, _sep, _hit))
            HELPER_SIZES.append("field_contains(r, %s, [%s%s%s], word_boundary=True)" % (_fields, _fill, _sep, _hit))
    _zf = ", ".join("'z%d'" % i for i in range(_n - 1))
    HELPER_SIZES.append("field_equals(r, [%s%s'ip'], ['1.2.3.4'])" % (_zf, _sep))
    HELPER_SIZES.append("field_contains(r, [%s%s's', 'p'], ['a'])" % (_zf, _sep))
    HELPER_SIZES.append("field_regex(r, [%s%s's'], '^a')" % (_zf, _sep))
# nesting depth as a size class: operator over operator over ... N levels (an evaluator that counts or limits depth meets it here)
DEEP_NEST = []
for _n in (10, 40, 99, 100, 101, 130, 180):
    DEEP_NEST += ["not " * _n + "r.b", "r.n" + " + 0" * _n + " == 1", "r.n" + " * 1" * _n + " == r.n", "(" * _n + "r.n == 1" + " and r.b)" * _n,
                  "(" * _n + "r.s == 'zz'" + " or r.b)" * _n, "r.n == 1" + " and r.m == 3" * _n, "1" + " <= r.m" * _n, "any(" * min(_n, 40) + "r.b" + " for _ in [1])" * min(_n, 40)]
GENS = [
    "any(x == 'a' for x in r.l)", "all(x == 'a' for x in r.l)", "any(x in r.s for x in r.l)", "all(x != r.s for x in r.l)",
    "any(x == y for x in r.l for y in [r.s, r.t])", "all(x >= 'a' for x in ['a', 'b'])", "any(n > 1 for n in [r.n, r.m])",
    "any(lower(x) == 'a' for x in r.l)", "any(any(c == 'b' for c in x) for x in r.l)", "any(x for x in [r.b, False])",
    "all(x for x in [])", "any(x == 'a' for x in r.l) and any(x == 'b' for x in r.l)", "any(x == 'a' for x in r.l) or any(y == 'b' for y in r.l)",
    "any(lower == 'a' for lower in r.l)", "any(x == 'a' for x in r.none)", "any(f in r.s for f in Type.string)",
    # an inner generator reusing the name of the enclosing one's variable (shadowed inside, back afterwards)
    "any(any(x == 'a' for x in x) for x in r.l)", "all(any(x == 'b' for x in x) and x == 'b' for x in r.l)", "any(any(x == 'b' for x in x) and x == 'ab' for x in r.l)",
    "any(x == 'a' for x in r.l if x != 'b')", "all(x == 'a' for x in r.l if x != 'b')", "any(x == 'a' for x in r.l if x == 'b')", "any(x for x in r.l if r.b)",
    "any(x + y == 'ab' for x in r.l if x == 'a' for y in r.l if y != x)", "all(x == 'ab' for x in r.l if r.n == 3 if x)", "any(n > 1 for n in [r.n, r.m] if n < 50)",
    "any(any(r.b for _ in [1]) for _ in [1])", "any(x for x in [1] for x in [0])", "any(x == 'a' for x in r.l if any(x == 'b' for x in r.l))",
]
OUTSIDE = [
    "-r.n < 0", "+r.n == 1", "~r.n == -2", "r.n if r.b else r.m", "r.l[0] == 'a'", "f'{r.s}' == 'a'", "{'a': 1} == {}", "{r.s} == {'a'}",
    "[x for x in r.l] == ['a']", "(lambda: True)()", "any([*r.l])", "(y := r.n) == 1", "r.s[0:1] == 'a'", "r.n == -1", "r.l[-1] == 'b'",
    "not -1", "r.f == -1.5", "r.n > -5",
]


# expressions outside the language that must be *rejected* by the interpreted engine (unknown names, disallowed calls)
MUST_REJECT = [
    "foo == 1", "foo", "not foo", "foo and True", "r.n == foo", "foo(r)", "len(r.s) == 1", "int('1') == 1", "foo.bar == 1",
    "r.s.upper() == 'A'", "print(r.n)", "open('/etc/passwd')", "r.n == unknown.name", "string.nope('a') == 'a'",
    "any(x == 'a' for x in foo)", "__import__('os')", "getattr(r, 's') == 'a'", "(lambda: 1)() == 1",
]


def class1():
    for a in ATOMS + TYPES + CALLS + GENS + LONG_LITERALS + HELPER_OPTS + HELPER_SIZES + DEEP_NEST:
        yield a


def class2():
    for a, op, b in itertools.product(ATOMS, CMP, ATOMS):
        yield "%s %s %s" % (a, op, b)
    chain_atoms = ["r.n", "r.m", "1", "3", "r.f"]
    for a, o1, b, o2, c in itertools.product(chain_atoms, ORD, chain_atoms, ORD, chain_atoms):
        yield "%s %s %s %s %s" % (a, o1, b, o2, c)
    for a, o1, b, o2, c, o3, d in itertools.product(["r.n", "1"], ["<", "=="], ["r.m", "3"], ["<=", "!="], ["r.n", "10"], [">", "<"], ["r.m", "1"]):
        yield "%s %s %s %s %s %s %s" % (a, o1, b, o2, c, o3, d)
    for a, b, c in itertools.product(["'a'", "r.s"], ["r.t", "r.l"], ["r.l", "['ab', 'a']"]):
        yield "%s in %s in %s" % (a, b, c)
        yield "%s == %s in %s" % (a, b, c)
    boolish = ["r.b", "True", "False", "r.n", "r.s", "r.l", "None", "r.f"]
    for op in ("and", "or"):
        for a, b in itertools.product(boolish, repeat=2):
            yield "%s %s %s" % (a, op, b)
        for a, b, c in itertools.product(boolish[:6], repeat=3):
            yield "%s %s %s %s %s" % (a, op, b, op, c)
    for a in ATOMS:
        yield "not %s" % a
    num = INT + FLT + STR[:3] + ["r.b", "r.l", "[1]"]
    for a, op, b in itertools.product(num, BIN_L + BIN_X, num):
        yield "(%s %s %s) == %s" % (a, op, b, a)
        yield "%s %s %s" % (a, op, b)
    for t, op, b in itertools.product(TYPES, CMP[:8], ["'a'", "'ab'", "1", "3", "1.5", "r.s", "r.n", "'a.txt'", "'1.2.3.4'", "True", "None"]):
        if op == "not in":
            # `Type.T not in X` has no pinned meaning (no value in X / some value not in X); `x not in <incomplete path>` likewise
            if t not in ("Type.net", "Type.nope"):
                yield "%s %s %s" % (b, op, t)
            continue
        yield "%s %s %s" % (t, op, b)
        yield "%s %s %s" % (b, op, t)
    for t in TYPES:
        for c in ["['a', 'ab']", "('a.txt', 1)", "[1, 3]", "net.ipnetwork('1.2.3.0/24')", "net.ipnetwork('10.0.0.0/8')", "net.ipv4.Subnet('1.2.3.0/24')"]:
            yield "%s in %s" % (t, c)
    for c in CALLS:
        for op, b in itertools.product(["==", "!=", "in"], ["'a'", "'A'", "True", "r.s", "['sel/rec']", "'sel/rec'"]):
            yield "%s %s %s" % (c, op, b)
    for c in CONS:
        for op, b in itertools.product(CMP[:8], ["r.ip", "r.nw", "r.s", "r.n", "'1.2.3.4'", "r.sub.s"]):
            yield "%s %s %s" % (b, op, c)
            yield "%s %s %s" % (c, op, b)
    for o in OUTSIDE:
        yield o
    for o in MUST_REJECT:
        yield o


def class3(atoms=RED):
    cmps = ["%s %s %s" % (a, op, b) for a, op, b in itertools.product(atoms, ["==", "<", "in", "!="], atoms)]
    small = cmps[:: max(1, len(cmps) // 60)]
    for a, b in itertools.product(small, repeat=2):
        yield "%s and %s" % (a, b)
        yield "%s or not (%s)" % (a, b)
    for c in cmps:
        yield "not (%s)" % c
        yield "(%s) == True" % c
    for a, op, b, cop, c in itertools.product(["r.n", "r.m", "3", "r.f", "r.s", "'a'"], BIN_L, ["r.n", "1", "r.s", "2"], ["==", "<", ">="], ["r.n", "4", "'aa'", "r.f"]):
        yield "%s %s %s %s %s" % (a, op, b, cop, c)
        yield "%s %s (%s %s %s)" % (c, cop, a, op, b)
    for g in GENS[:10]:
        for c in small[:12]:
            yield "%s and %s" % (g, c)
            yield "%s or %s" % (c, g)
    for h in ["lower(r.s)", "upper(r.t)", "str(r.n)", "name(r)"]:
        for op, b in itertools.product(["==", "in", "<"], ["lower(r.t)", "upper('a')", "'a' + 'b'", "r.s + r.t", "[lower(r.t), 'a']"]):
            yield "%s %s %s" % (h, op, b)
    for t, op, a, bop, b in itertools.product(TYPES[:4], ["==", "<", "in"], ["r.n", "'a'", "r.s"], ["+", "*"], ["1", "r.s", "'b'"]):
        yield "%s %s (%s %s %s)" % (t, op, a, bop, b)
        yield "(%s %s %s) %s %s" % (a, bop, b, op, t)


def class4():
    atoms = ["r.n", "1", "r.s", "'a'", "r.b"]
    cmps = ["%s %s %s" % (a, op, b) for a, op, b in itertools.product(atoms, ["==", "<"], atoms)]
    for a, b, c in itertools.product(cmps[::3], repeat=3):
        yield "(%s and %s) or %s" % (a, b, c)
        yield "not (%s or %s) and %s" % (a, b, c)
    for a, b in itertools.product(cmps[::2], repeat=2):
        yield "any(%s for x in r.l) and %s" % (a.replace("r.s", "x"), b)


def programs(tier):
    yield from class1()
    yield from class2()
    yield from class3()
    if tier == "thorough":
        yield from class3(RED + ["r.t", "0", "r.ip", "'ab'", "r.u.filename"])
        yield from class4()
