"""Reference selector semantics (DESIGN C07): CPython's own eval of the expression text over a plain namespace.

Nothing here imports flow.record.selector. Field values are the record's real field values (the property is about "the
Python meaning of the expression over the record's field values"); constructors are the real field-type classes.
"""
from __future__ import annotations

import ast
import re

TYPE_NAMES = [
    "boolean", "command", "dynamic", "datetime", "filesize", "uint16", "uint32", "float", "string", "stringlist", "dictlist",
    "unix_file_mode", "varint", "wstring", "net.ipv4.Address", "net.ipv4.Subnet", "net.tcp.Port", "net.udp.Port", "uri", "digest",
    "bytes", "record", "net.ipaddress", "net.ipnetwork", "net.IPAddress", "net.IPNetwork", "path",
]
RESERVED = ("_source", "_classification", "_generated", "_version")


class Undefined(Exception):
    pass


class Plain:
    """Plain view of a record: attributes are the field values; anything else is an AttributeError."""

    def __init__(self, rec):
        object.__setattr__(self, "_rec", rec)

    def __getattr__(self, k):
        rec = object.__getattribute__(self, "_rec")
        if k.startswith("__"):
            raise AttributeError(k)
        names = all_field_names(rec)
        if k in names:
            return getattr(rec, k)
        raise AttributeError(k)


def is_grouped(rec):
    return hasattr(rec, "records") and hasattr(rec, "fieldname_to_record")


def declared_fields(rec):
    """[(typename, fieldname)] non-metadata, for plain and grouped records."""
    return [tuple(t) for t in rec._desc.get_field_tuples()]


def all_field_names(rec):
    if is_grouped(rec):
        names = []
        for m in rec.records:
            for _, n in declared_fields(m):
                names.append(n)
            names.extend(RESERVED)
        return names
    return [n for _, n in declared_fields(rec)] + list(RESERVED)


def _rec_of(x):
    return object.__getattribute__(x, "_rec") if isinstance(x, Plain) else x


# ---- helpers, written from their docstrings -------------------------------------------------------------------

def h_lower(s):
    return s.lower() if isinstance(s, str) else s


def h_upper(s):
    return s.upper() if isinstance(s, str) else s


def h_name(r):
    r = _rec_of(r)
    return r._desc.name if hasattr(r, "_desc") else "UnknownRecord"


def h_names(r):
    r = _rec_of(r)
    if is_grouped(r):
        return {m._desc.name for m in r.records}
    if hasattr(r, "_desc"):
        return {r._desc.name}
    return ["UnknownRecord"]


def h_get_type(obj):
    return str(type(obj))


def h_has_field(r, field):
    r = _rec_of(r)
    return field in [n for _, n in declared_fields(r)]


_MISSING = object()


def _fval(r, f):
    r = _rec_of(r)
    if f in all_field_names(r):
        return getattr(r, f)
    return _MISSING


def h_field_regex(r, fields, regex):
    pat = re.compile(regex)
    for f in fields:
        v = _fval(r, f)
        if v is _MISSING:
            continue
        if pat.search(v) is not None:
            return True
    return False


def h_field_equals(r, fields, strings, nocase=True):
    ss = [h_lower(s) for s in strings] if nocase else list(strings)
    for f in fields:
        v = _fval(r, f)
        if v is _MISSING:
            continue
        if nocase:
            v = h_lower(v)
        if any(s == v for s in ss):
            return True
    return False


def h_field_contains(r, fields, strings, nocase=True, word_boundary=False):
    ss = [h_lower(s) for s in strings] if nocase else list(strings)
    for f in fields:
        v = _fval(r, f)
        if v is _MISSING:
            continue
        if nocase:
            v = h_lower(v)
        for s in ss:
            if not word_boundary:
                if s in v:
                    return True
            else:
                if v is None:
                    if s is None:
                        return True
                    continue
                if not isinstance(v, str):
                    continue
                if re.search(r"\b" + re.escape(s) + r"\b", v) is not None:
                    return True
    return False


# ---- typed matcher ---------------------------------------------------------------------------------------------

class Nothing:
    """An incomplete / unknown type path: matches nothing."""

    def __eq__(self, o):
        return False

    def __ne__(self, o):
        return False

    __lt__ = __gt__ = __le__ = __ge__ = __eq__

    def __contains__(self, o):
        return False

    def __iter__(self):
        return iter(())

    def __getattr__(self, k):
        if k.startswith("__"):
            raise AttributeError(k)
        return self

    def __hash__(self):
        return 0

    def __len__(self):
        return 0


def _type_values(rec, tname, attrs):
    """All values of fields declared exactly as tname, in rec and in records nested through record / record[] fields."""
    out = []
    for t, n in declared_fields(rec):
        if t == tname:
            v = getattr(rec, n)
            ok = True
            for a in attrs:
                if a.startswith("_") or not hasattr(v, a):
                    ok = False
                    break
                v = getattr(v, a)
            if ok:
                out.append(v)
    for t, n in declared_fields(rec):
        if t == "record":
            sub = getattr(rec, n)
            if sub is not None:
                out.extend(_type_values(sub, tname, attrs))
        elif t == "record[]":
            for sub in getattr(rec, n) or []:
                out.extend(_type_values(sub, tname, attrs))
    return out


class RefTM:
    def __init__(self, rec, parts, attrs=()):
        self._rec, self._parts, self._attrs = rec, tuple(parts), tuple(attrs)

    def _tname(self):
        p = ".".join(self._parts)
        return p if p in TYPE_NAMES else None

    def __getattr__(self, k):
        if k.startswith("__"):
            raise AttributeError(k)
        if self._tname() is None:
            p = ".".join(self._parts + (k,))
            if any(t == p or t.startswith(p + ".") for t in TYPE_NAMES):
                return RefTM(self._rec, self._parts + (k,))
            return Nothing()
        if k.startswith("_"):
            return Nothing()
        return RefTM(self._rec, self._parts, self._attrs + (k,))

    def values(self):
        t = self._tname()
        if t is None:
            return []
        return _type_values(self._rec, t, self._attrs)

    def field_names(self):
        t = self._tname()
        return [n for ft, n in declared_fields(self._rec) if ft == t]

    def __iter__(self):
        return iter(self.field_names())

    def _some(self, f):
        return any(f(v) for v in self.values())

    def __eq__(self, o):
        return self._some(lambda v: v == o)

    def __ne__(self, o):
        return self._some(lambda v: v != o)

    def __lt__(self, o):
        return self._some(lambda v: v < o)

    def __gt__(self, o):
        return self._some(lambda v: v > o)

    def __le__(self, o):
        return self._some(lambda v: v <= o)

    def __ge__(self, o):
        return self._some(lambda v: v >= o)

    def __contains__(self, o):
        return self._some(lambda v: o in v)

    def __hash__(self):
        return 0


class RefType:
    def __init__(self, rec):
        self._rec = rec

    def __getattr__(self, k):
        if k.startswith("__"):
            raise AttributeError(k)
        if any(t == k or t.startswith(k + ".") for t in TYPE_NAMES):
            return RefTM(self._rec, (k,))
        return Nothing()


def TV(x):
    """values of a typed matcher (used by the rewritten `Type.T in container`)."""
    return x.values() if isinstance(x, RefTM) else []


# ---- namespace + evaluation ------------------------------------------------------------------------------------

class _NS:
    pass


def constructors():
    """The whitelisted field-type constructors, reachable as bare names and through `net`."""
    from flow.record import fieldtypes as ft
    from flow.record.fieldtypes import net as fnet
    from flow.record.fieldtypes.net import ipv4, tcp, udp

    net = _NS()
    net.ipaddress = net.IPAddress = fnet.ipaddress
    net.ipnetwork = net.IPNetwork = fnet.ipnetwork
    net.ipv4 = _NS()
    net.ipv4.Address = ipv4.Address
    net.ipv4.Subnet = ipv4.Subnet
    net.tcp = _NS()
    net.tcp.Port = tcp.Port
    net.udp = _NS()
    net.udp.Port = udp.Port
    bare = {n: getattr(ft, n) for n in ("boolean", "command", "dynamic", "datetime", "filesize", "uint16", "uint32", "float", "string",
                                        "stringlist", "dictlist", "unix_file_mode", "varint", "wstring", "uri", "digest", "bytes", "path")}
    return net, bare


_CONS = None


class _Field:
    def __init__(self, name, typename):
        self.name, self.typename = name, typename


def h_fields_for(rec):
    def fields(typename):
        if isinstance(typename, RefTM):
            typename = typename._tname()
        return [_Field(n, t) for t, n in declared_fields(rec) if t == typename]

    return fields


def namespace(rec):
    global _CONS
    if _CONS is None:
        _CONS = constructors()
    net, bare = _CONS
    ns = dict(bare)
    ns.update({
        "r": Plain(rec), "Type": RefType(rec), "net": net, "TV": TV,
        "lower": h_lower, "upper": h_upper, "name": h_name, "names": h_names, "get_type": h_get_type,
        "has_field": h_has_field, "field_contains": h_field_contains, "field_equals": h_field_equals,
        "field_regex": h_field_regex, "fields": h_fields_for(rec),
        "__builtins__": {"str": str, "repr": repr, "any": any, "all": all, "True": True, "False": False, "None": None},
    })
    return ns


def _is_type_rooted(node):
    while isinstance(node, ast.Attribute):
        node = node.value
    return isinstance(node, ast.Name) and node.id == "Type"


class _Rewrite(ast.NodeTransformer):
    """`Type.T in X` where X is not a list/tuple display means: some value of T is in X."""

    def visit_Compare(self, node):
        self.generic_visit(node)
        if len(node.ops) == 1 and isinstance(node.ops[0], ast.In) and _is_type_rooted(node.left) \
                and not isinstance(node.comparators[0], (ast.List, ast.Tuple)):
            gen = ast.GeneratorExp(
                elt=ast.Compare(left=ast.Name(id="_tv", ctx=ast.Load()), ops=[ast.In()], comparators=[node.comparators[0]]),
                generators=[ast.comprehension(target=ast.Name(id="_tv", ctx=ast.Store()),
                                              iter=ast.Call(func=ast.Name(id="TV", ctx=ast.Load()), args=[node.left], keywords=[]),
                                              ifs=[], is_async=0)])
            return ast.Call(func=ast.Name(id="any", ctx=ast.Load()), args=[gen], keywords=[])
        return node


_cache = {}


def _prepare(expr):
    c = _cache.get(expr)
    if c is None:
        orig = ast.parse(expr, mode="eval")
        tree = ast.fix_missing_locations(_Rewrite().visit(ast.parse(expr, mode="eval")))
        subs = []

        def collect(node, top):
            if isinstance(node, ast.GeneratorExp):
                lc = ast.ListComp(elt=node.elt, generators=node.generators)
                subs.append(compile(ast.fix_missing_locations(ast.Expression(body=lc)), "<sub>", "eval"))
                return
            needs_rewrite = (isinstance(node, ast.Compare) and len(node.ops) == 1 and isinstance(node.ops[0], ast.In)
                             and _is_type_rooted(node.left) and not isinstance(node.comparators[0], (ast.List, ast.Tuple)))
            if isinstance(node, ast.expr) and not top and not needs_rewrite:
                if not isinstance(node, (ast.Constant, ast.Starred)) and not isinstance(getattr(node, "ctx", None), ast.Store):
                    subs.append(compile(ast.fix_missing_locations(ast.Expression(body=node)), "<sub>", "eval"))
            for ch in ast.iter_child_nodes(node):
                if isinstance(ch, (ast.expr,)):
                    collect(ch, False)
                elif isinstance(ch, ast.keyword):
                    collect(ch.value, False)

        collect(orig.body, True)
        c = _cache[expr] = (compile(tree, "<ref>", "eval"), subs)
    return c


def evaluate(expr, rec):
    """-> ('value', bool) or ('undefined', reason). All sub-expressions are evaluated eagerly for definedness."""
    code, subs = _prepare(expr)
    ns = namespace(rec)
    try:
        for s in subs:
            eval(s, dict(ns))
        v = eval(code, dict(ns))
        if hasattr(v, "__next__"):
            v = list(v) or True  # a bare generator object is truthy in Python
            v = True
        return ("value", bool(v))
    except RecursionError:
        raise
    except Exception as e:  # noqa: BLE001
        return ("undefined", type(e).__name__)


# ---- language membership (what the documentation/operator tables support) ----------------------------------------

L_BINOPS = (ast.Add, ast.Mult, ast.Div, ast.Mod, ast.BitAnd, ast.BitOr)
L_CMPOPS = (ast.Eq, ast.NotEq, ast.Lt, ast.LtE, ast.Gt, ast.GtE, ast.In, ast.NotIn, ast.Is, ast.IsNot)
L_CALL_NAMES = {"fields", "lower", "upper", "name", "names", "get_type", "has_field", "field_contains", "field_equals", "field_regex",
                "str", "repr", "any", "all"}


NAMESPACE_NAMES = L_CALL_NAMES | {"r", "Type", "net", "fields", "None", "True", "False"}


def identity_on_literal(expr):
    """`is` / `is not` with a non-singleton literal operand: CPython itself warns that the result is unreliable."""
    tree = ast.parse(expr, mode="eval")
    for node in ast.walk(tree):
        if isinstance(node, ast.Compare):
            operands = [node.left] + node.comparators
            for i, op in enumerate(node.ops):
                if isinstance(op, (ast.Is, ast.IsNot)):
                    for x in (operands[i], operands[i + 1]):
                        if isinstance(x, (ast.List, ast.Tuple, ast.Dict, ast.Set)):
                            return True
                        if isinstance(x, ast.Constant) and x.value not in (None, True, False):
                            return True
                        if isinstance(x, ast.Constant) and isinstance(x.value, (int, float)) and not isinstance(x.value, bool):
                            return True
    return False


def type_in_container(expr):
    """`Type.T in <non-display>`: documented to work in the interpreted engine only."""
    tree = ast.parse(expr, mode="eval")
    for node in ast.walk(tree):
        if isinstance(node, ast.Compare) and len(node.ops) == 1 and isinstance(node.ops[0], (ast.In, ast.NotIn)) \
                and _is_type_rooted(node.left) and not isinstance(node.comparators[0], (ast.List, ast.Tuple)):
            return True
    return False


def call_path(node):
    parts = []
    x = node.func
    while isinstance(x, ast.Attribute):
        parts.append(x.attr)
        x = x.value
    if isinstance(x, ast.Name):
        parts.append(x.id)
        return ".".join(reversed(parts))
    return None


def in_language(expr, compiled=False):
    try:
        tree = ast.parse(expr, mode="eval")
    except SyntaxError:
        return False
    for node in ast.walk(tree):
        if isinstance(node, (ast.Expression, ast.Constant, ast.List, ast.Tuple, ast.Name, ast.Load, ast.Store, ast.BoolOp, ast.And,
                             ast.Or, ast.Compare, ast.GeneratorExp, ast.comprehension, ast.keyword)):
            if isinstance(node, ast.comprehension) and not isinstance(node.target, ast.Name):
                return False
            if isinstance(node, ast.comprehension) and node.target.id in NAMESPACE_NAMES:
                return False  # documented restriction: a generator variable must not overwrite an existing name
            continue
        if isinstance(node, ast.Attribute):
            if node.attr.startswith("__"):
                return False
            continue
        if isinstance(node, ast.BinOp):
            if not isinstance(node.op, L_BINOPS):
                return False
            continue
        if isinstance(node, ast.UnaryOp):
            if not isinstance(node.op, ast.Not):
                return False
            continue
        if isinstance(node, (ast.operator, ast.cmpop, ast.unaryop, ast.boolop)):
            continue
        if isinstance(node, ast.Call):
            p = call_path(node)
            if p is None:
                return False
            if p == "fields" and compiled:
                return False  # the field lookup helper exists in the interpreted engine's namespace only
            if p in L_CALL_NAMES:
                continue
            if p in TYPE_NAMES and (p.startswith("net.") or not compiled):
                continue
            return False
        return False
    return True


# ---- C08 reference: comparisons that involve a field the record lacks are False --------------------------------------

class _Missing:
    def __repr__(self):
        return "<missing>"

    def __bool__(self):
        return False


MISSING = _Missing()


class PlainMissing(Plain):
    def __getattr__(self, k):
        try:
            return Plain.__getattr__(self, k)
        except AttributeError:
            if k.startswith("__"):
                raise
            return MISSING


import operator as _op

_OPS = {"Eq": _op.eq, "NotEq": _op.ne, "Lt": _op.lt, "LtE": _op.le, "Gt": _op.gt, "GtE": _op.ge, "Is": _op.is_, "IsNot": _op.is_not,
        "In": lambda a, b: a in b, "NotIn": lambda a, b: a not in b}


def _c8cmp(ops, *operands):
    for i, o in enumerate(ops):
        a, b = operands[i], operands[i + 1]
        if o not in ("Is", "IsNot") and (a is MISSING or b is MISSING):
            return False
        if not _OPS[o](a, b):
            return False
    return True


class _C8Rewrite(ast.NodeTransformer):
    def visit_Compare(self, node):
        self.generic_visit(node)
        return ast.Call(func=ast.Name(id="_c8cmp", ctx=ast.Load()),
                        args=[ast.Tuple(elts=[ast.Constant(type(o).__name__) for o in node.ops], ctx=ast.Load()), node.left] + node.comparators,
                        keywords=[])


_c8cache = {}


def evaluate_c08(expr, rec):
    """Truth value under the C08 reading (missing-field comparisons are False); ('undefined', reason) if evaluation raises."""
    code = _c8cache.get(expr)
    if code is None:
        tree = ast.fix_missing_locations(_C8Rewrite().visit(ast.parse(expr, mode="eval")))
        code = _c8cache[expr] = compile(tree, "<c8>", "eval")
    ns = namespace(rec)
    ns["r"] = PlainMissing(rec)
    ns["_c8cmp"] = _c8cmp
    try:
        return ("value", bool(eval(code, ns)))
    except RecursionError:
        raise
    except Exception as e:  # noqa: BLE001
        return ("undefined", type(e).__name__)
