"""Child interpreter of mc.envleg: read cases (JSON lines) on stdin, run <module>.run_case on each, write result JSON lines."""
from __future__ import annotations

import importlib
import json
import multiprocessing as mp
import sys
import traceback

_MOD = None


def _guard_mem():
    import resource

    from mc.space import WORKER_AS_LIMIT

    try:
        resource.setrlimit(resource.RLIMIT_AS, (WORKER_AS_LIMIT, WORKER_AS_LIMIT))
    except (ValueError, OSError):
        pass


def _one(case):
    from mc.report import jhash

    try:
        return _MOD.run_case(case)
    except Exception as e:  # noqa: BLE001
        return {"ev": 1, "h": jhash(case), "out": "HARNESS-ERROR", "err": "%s: %s\n%s" % (type(e).__name__, e, traceback.format_exc()[-1200:]), "case": case}


def main():
    global _MOD
    import flow.record  # noqa: F401

    from mc import lit

    lit.install_flow()
    _MOD = importlib.import_module(sys.argv[1])
    workers = int(sys.argv[2])
    cases = [json.loads(line) for line in sys.stdin if line.strip()]
    if workers <= 1 or len(cases) < 8:
        results = [_one(c) for c in cases]
    else:
        with mp.get_context("fork").Pool(workers, initializer=_guard_mem) as pool:
            results = pool.map(_one, cases, chunksize=16)
    out = sys.stdout
    for r in results:
        out.write(json.dumps(r, default=repr) + "\n")


if __name__ == "__main__":
    main()
