"""E1: bounded-exhaustive enumeration, sharded over forked workers.

The parent enumerates the (finite, deterministic) case stream and hands chunks to a fork pool; every case of the
stream is executed exactly once. Workers import flow.record once (before the fork) and never carry state between
cases other than what the driver deliberately keeps (warm caches).
"""
from __future__ import annotations

import itertools
import multiprocessing as mp
import os
import traceback

from .report import jhash

_RUNNER = None  # set before fork


def _run_chunk(chunk):
    out = []
    for case in chunk:
        try:
            res = _RUNNER(case)
        except Exception as e:  # noqa: BLE001  harness error, surfaced as internal error
            res = {"ev": 1, "h": jhash(case), "out": "HARNESS-ERROR",
                   "err": "%s: %s\n%s" % (type(e).__name__, e, traceback.format_exc()[-1500:]), "case": case}
        out.append(res)
    return out


def workers_default():
    try:
        return max(1, min(16, len(os.sched_getaffinity(0))))
    except AttributeError:
        return 8


def explore(run, cases, runner, workers=None, chunk=64, sample_every=None, reversed_pass=False):
    """Execute runner(case) for every case; accumulate into run. runner returns a result dict (see Run.add_result).

    reversed_pass=True enumerates the same space a second time in the opposite order (and therefore with another
    assignment of cases to worker processes): process-level state left behind by earlier cases then meets every case
    from the other side. Used by thorough tiers."""
    global _RUNNER
    _RUNNER = runner
    workers = workers or workers_default()
    if reversed_pass:
        cases = list(cases)
        n1 = explore(run, cases, runner, workers, chunk)
        run.extra["passes"] = 2
        return n1 + explore(run, cases[::-1], runner, workers, max(7, chunk // 2 + 1))
    it = iter(cases)

    def chunks():
        while True:
            c = list(itertools.islice(it, chunk))
            if not c:
                return
            yield c

    n = 0

    def consume(results):
        nonlocal n
        for res in results:
            n += 1
            if "err" in res:
                run.internal_errors.append("harness error on case %s: %s" % (str(res.get("case"))[:300], res["err"]))
            run.add_result(res)
            s = res.get("sample")
            if s is not None:
                run.sample(s)

    if workers == 1:
        for c in chunks():
            consume(_run_chunk(c))
    else:
        ctx = mp.get_context("fork")
        with ctx.Pool(workers) as pool:
            for results in pool.imap_unordered(_run_chunk, chunks()):
                consume(results)
    return n


def product_cases(*axes):
    return itertools.product(*axes)


def seqs_upto(alphabet, n, min_len=0):
    for k in range(min_len, n + 1):
        yield from itertools.product(alphabet, repeat=k)
