"""E1: bounded-exhaustive enumeration, sharded over forked workers.

The parent enumerates the (finite, deterministic) case stream and hands chunks to a fork pool; every case of the
stream is executed exactly once. Workers import flow.record once (before the fork) and never carry state between
cases other than what the driver deliberately keeps (warm caches).
"""
from __future__ import annotations

import itertools
import multiprocessing as mp
import os
import traceback

from .report import jhash

_RUNNER = None  # set before fork
_PROP = ["C??"]
CASE_TIMEOUT = int(os.environ.get("VERIF_CASE_TIMEOUT", "600"))  # seconds; a case of the unchanged tree takes at most a few
WORKER_AS_LIMIT = int(os.environ.get("VERIF_WORKER_MEM", str(4 << 30)))  # bytes of address space per worker process


class CaseTimeout(BaseException):
    """Raised inside a worker when one case runs beyond CASE_TIMEOUT (BaseException: a check's own `except Exception` does not eat it)."""


def guard_worker():
    """Pool initializer: code under test that loops or allocates without end must end as a report, not as a dead sandbox."""
    import resource
    import signal

    try:
        resource.setrlimit(resource.RLIMIT_AS, (WORKER_AS_LIMIT, WORKER_AS_LIMIT))
    except (ValueError, OSError):
        pass

    def on_alarm(signum, frame):
        raise CaseTimeout()

    signal.signal(signal.SIGALRM, on_alarm)


def _run_chunk(chunk):
    out = []
    import signal

    for case in chunk:
        try:
            signal.alarm(CASE_TIMEOUT)
            try:
                res = _RUNNER(case)
            finally:
                signal.alarm(0)
        except (CaseTimeout, MemoryError) as e:
            # the implementation did not come back (or ate the worker's memory) on this case: that is a finding about the code under
            # test, reported under the property whose space the case belongs to
            why = "did-not-finish-within-%ds" % CASE_TIMEOUT if isinstance(e, CaseTimeout) else "exhausted-worker-memory"
            res = {"ev": 1, "h": jhash(case), "nt": True, "out": "RUNAWAY", "viol": [("%s:runaway:%s" % (_PROP[0], why), case, {"limit_bytes": WORKER_AS_LIMIT})]}
        except Exception as e:  # noqa: BLE001  harness error, surfaced as internal error
            res = {"ev": 1, "h": jhash(case), "out": "HARNESS-ERROR",
                   "err": "%s: %s\n%s" % (type(e).__name__, e, traceback.format_exc()[-1500:]), "case": case}
        out.append(res)
    return out


def workers_default():
    try:
        return max(1, min(16, len(os.sched_getaffinity(0))))
    except AttributeError:
        return 8


def explore(run, cases, runner, workers=None, chunk=64, sample_every=None, reversed_pass=False):
    """Execute runner(case) for every case; accumulate into run. runner returns a result dict (see Run.add_result).

    reversed_pass=True enumerates the same space a second time in the opposite order (and therefore with another
    assignment of cases to worker processes): process-level state left behind by earlier cases then meets every case
    from the other side. Used by thorough tiers."""
    global _RUNNER
    _RUNNER = runner
    _PROP[0] = getattr(run, "prop", "C??")
    workers = workers or workers_default()
    if reversed_pass:
        cases = list(cases)
        n1 = explore(run, cases, runner, workers, chunk)
        run.extra["passes"] = 2
        return n1 + explore(run, cases[::-1], runner, workers, max(7, chunk // 2 + 1))
    it = iter(cases)

    def chunks():
        while True:
            c = list(itertools.islice(it, chunk))
            if not c:
                return
            yield c

    n = 0

    def consume(results):
        nonlocal n
        for res in results:
            n += 1
            if "err" in res:
                run.internal_errors.append("harness error on case %s: %s" % (str(res.get("case"))[:300], res["err"]))
            run.add_result(res)
            s = res.get("sample")
            if s is not None:
                run.sample(s)

    if workers == 1:
        for c in chunks():
            consume(_run_chunk(c))
    else:
        ctx = mp.get_context("fork")
        with ctx.Pool(workers, initializer=guard_worker) as pool:
            for results in pool.imap_unordered(_run_chunk, chunks()):
                consume(results)
    return n


def product_cases(*axes):
    return itertools.product(*axes)


def seqs_upto(alphabet, n, min_len=0):
    for k in range(min_len, n + 1):
        yield from itertools.product(alphabet, repeat=k)
