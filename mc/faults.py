"""E3: fault-injecting file objects and cut enumeration."""
from __future__ import annotations

import io


class FaultyFile(io.RawIOBase):
    """In-memory device that logs every write() and injects one fault.

    mode 'raise': at write-call index fail_at accept the first k bytes, then raise OSError.
    mode 'short': at write-call index fail_at accept k bytes and return k (a legal short write), then carry on.
    mode 'chunked': every call takes at most k bytes; mode 'none': every call takes everything and returns None.
    """

    def __init__(self, fail_at=None, k=0, mode="raise"):
        super().__init__()
        self.image = bytearray()
        self.calls = []  # lengths of every write call seen
        self.fail_at = fail_at
        self.k = k
        self.mode = mode
        self.failed = False
        self.flushes = 0

    def writable(self):
        return True

    def write(self, b):
        b = bytes(b)
        idx = len(self.calls)
        self.calls.append(len(b))
        if self.mode == "none":
            # takes everything, answers None (file-like objects that are no io classes: tee / hashing / upload wrappers)
            self.image += b
            return None
        if self.mode == "chunked":
            # a raw device that takes at most k bytes per call (every oversized write is a short write)
            k = max(1, self.k)
            if len(b) > k:
                self.failed = True
            self.image += b[:k]
            return min(k, len(b))
        if self.fail_at is not None and idx == self.fail_at:
            k = min(self.k if self.k >= 0 else max(0, len(b) + self.k), len(b))
            self.image += b[:k]
            self.failed = True
            if self.mode == "raise":
                raise OSError(28, "injected: no space left on device")
            return k
        self.image += b
        return len(b)

    def flush(self):
        self.flushes += 1

    def close(self):
        # keep image readable after close
        io.RawIOBase.close(self)

    def getvalue(self):
        return bytes(self.image)


class DuckFile:
    """The same device behind a plain object with write/flush/close (no io base class): what a socket wrapper, an upload
    stream or a test double looks like. A short write of such an object is as legal as one of a raw file."""

    def __init__(self, *a, **k):
        self._dev = FaultyFile(*a, **k)

    def write(self, b):
        return self._dev.write(b)

    def flush(self):
        self._dev.flush()

    def close(self):
        pass

    def getvalue(self):
        return self._dev.getvalue()

    calls = property(lambda self: self._dev.calls)
    failed = property(lambda self: self._dev.failed)


class ReadOnly(io.RawIOBase):
    """Non-peekable raw reader over bytes exposing only read/readinto (for sniffing paths)."""

    def __init__(self, data):
        super().__init__()
        self._b = io.BytesIO(data)

    def readable(self):
        return True

    def readinto(self, buf):
        d = self._b.read(len(buf))
        buf[: len(d)] = d
        return len(d)


def drain(iterable):
    """Iterate to the end or to the first exception: -> (items, exception or None)."""
    out = []
    try:
        for x in iterable:
            out.append(x)
    except Exception as e:  # noqa: BLE001
        return out, e
    return out, None


def drain_resumed(reader):
    """Like drain(), but the consumer leaves its loop after the first item and starts a new loop on the same reader."""
    out = []
    try:
        for x in reader:
            out.append(x)
            break
        for x in reader:
            out.append(x)
    except Exception as e:  # noqa: BLE001
        return out, e
    return out, None
