"""Building real records from literal record specs, and tree diffing of observations.

recspec := {"name": str, "fields": [[type, fname], ...], "values": [valspec...], "meta": {"_source": spec, ...}}
         | {"group": str, "members": [recspec, ...]}
valspec := spec string (lit.ev) | recspec (nested record) | [recspec, ...] (record[] value) | None
"""
from __future__ import annotations

from . import lit

GEN = "dt(2023,4,5,6,7,8,9,tz=UTC)"  # fixed _generated stamp: the harness never lets the library read the clock


def build_value(v):
    if v is None:
        return None
    if isinstance(v, str):
        return lit.ev(v)
    if isinstance(v, dict):
        return build_record(v)
    if isinstance(v, list):
        return [build_value(x) for x in v]
    raise TypeError(v)


_DESC_CACHE = {}
FRESH_DESCRIPTORS = [False]  # checks that want an independently rebuilt descriptor object per record set this


def _warm(d):
    """Use a descriptor the way an application that already wrote records of it has: every lazily computed attribute is filled."""
    d.identifier, d.descriptor_hash, hash(d), repr(d), d.fields, d.get_all_fields(), d.getfields("string"), d.recordType
    return d


def descriptor(name, fields, via=None):
    """One descriptor object per (name, fields, construction path) and process, as applications hold them (identity-keyed fast
    paths see the same object again); FRESH_DESCRIPTORS[0] = True builds a new object every time.

    via: how the descriptor comes into being - None: RecordDescriptor(name, fields); ["extend", k]: the first k fields are a base
    descriptor that is in use (warm) and .extend() adds the rest; ["clone", other_name]: the deprecated RecordDescriptor(name,
    other_descriptor) of a warm descriptor with the same fields; ["strdef"]: the deprecated string-only definition; ["unpack"]:
    RecordDescriptor._unpack as the stream reader does; ["merge", k]: merge_record_descriptors of the first k and the remaining
    fields. Every path must give a descriptor with exactly (name, fields)."""
    import warnings

    from flow.record import RecordDescriptor
    from flow.record.base import merge_record_descriptors

    fields = [tuple(f) for f in fields]
    key = (name, tuple(fields), repr(via))
    d = None if FRESH_DESCRIPTORS[0] else _DESC_CACHE.get(key)
    if d is not None:
        return d
    with warnings.catch_warnings():
        warnings.simplefilter("ignore")
        if not via:
            d = RecordDescriptor(name, fields)
        elif via[0] == "extend":
            base = _warm(descriptor(name, fields[: via[1]]))
            d = base.extend(fields[via[1]:])
        elif via[0] == "clone":
            d = RecordDescriptor(name, _warm(descriptor(via[1], fields)))
        elif via[0] == "strdef":
            d = RecordDescriptor(name + "\n" + "\n".join("%s %s;" % f for f in fields))
        elif via[0] == "unpack":
            d = RecordDescriptor._unpack(name, tuple(fields))
        elif via[0] == "merge":
            a = _warm(descriptor(name, fields[: via[1]]))
            b = _warm(descriptor(name + "/part", fields[via[1]:]))
            d = merge_record_descriptors((a, b))
        else:
            raise ValueError(via)
    assert (d.name, tuple(d.get_field_tuples())) == (name, tuple(fields)), (d, name, fields)
    if not FRESH_DESCRIPTORS[0]:
        _DESC_CACHE[key] = d
    return d


def build_record(rs):
    from flow.record import GroupedRecord

    if "group" in rs:
        members = [build_record(m) for m in rs["members"]]
        how = rs.get("members_as")  # the constructor takes any iterable of records
        if how == "generator":
            members = (m for m in members)
        elif how == "tuple":
            members = tuple(members)
        elif how == "map":
            members = map(lambda m: m, members)
        return GroupedRecord(rs["group"], members)
    desc = descriptor(rs["name"], rs["fields"], rs.get("via"))
    vals = [build_value(v) for v in rs.get("values", [])]
    meta = {"_generated": lit.ev(GEN)}
    for k, v in rs.get("meta", {}).items():
        meta[k] = build_value(v)
    names = [f[1] for f in rs["fields"]]
    kw = dict(zip(names, vals))
    kw.update(meta)
    rec = desc.recordType(**kw)
    # "mutate": [[field, spec], ...] appends a raw value to a list field *after* construction (in-place, bypassing conversion)
    for fname, spec in rs.get("mutate", []):
        getattr(rec, fname).append(lit.ev(spec))
    return rec


def rs(name, fields, values, **meta):
    d = {"name": name, "fields": [list(f) for f in fields], "values": list(values)}
    if meta:
        d["meta"] = meta
    return d


# ---- observation diff -----------------------------------------------------------------------------------------

TAGS = {"none", "grouped", "rec", "bool", "int", "float", "str", "bytes", "dt", "path", "cmd", "ip", "net", "ipraw", "ip4",
        "subnet4", "digest", "list", "tuple", "dict", "other", "unset-slot", "too-deep"}


def _is_node(x):
    return isinstance(x, list) and x and isinstance(x[0], str) and x[0] in TAGS


def _short(x):
    r = repr(x)
    return r if len(r) <= 14 else type(x).__name__


def first_diff(a, b, path=()):
    """Return (path, a_leaf, b_leaf) of the first structural difference, or None."""
    if type(a) is not type(b):
        return path, a, b
    if isinstance(a, list):
        if _is_node(a) and _is_node(b) and a[0] != b[0]:
            return path + (0,), a[0], b[0]
        if len(a) != len(b):
            return path + ("len",), len(a), len(b)
        for i, (x, y) in enumerate(zip(a, b)):
            d = first_diff(x, y, path + (i,))
            if d:
                return d
        return None
    if isinstance(a, float):
        return None if repr(a) == repr(b) else (path, a, b)
    if a != b:
        return path, a, b
    return None


def locate(oa, ob, ftype="?", where=""):
    """Descend through rec / grouped / list structure to the innermost differing value.
    Returns None or (where, declared field type, diff class)."""
    if first_diff(oa, ob) is None:
        return None
    if _is_node(oa) and _is_node(ob) and oa[0] == ob[0]:
        tag = oa[0]
        if tag == "rec":
            if oa[1] != ob[1]:
                return (where + "<name>", ftype, "recname:%s->%s" % (_short(oa[1]), _short(ob[1])))
            if oa[2] != ob[2]:
                return (where + "<fields>", ftype, "fields-differ")
            types = {f[1]: f[0] for f in oa[2]}
            sa, sb = oa[3], ob[3]
            if len(sa) != len(sb):
                return (where + "<slots>", ftype, "slotcount:%d->%d" % (len(sa), len(sb)))
            for (ka, va), (kb, vb) in zip(sa, sb):
                if ka != kb:
                    return (where + "<slots>", ftype, "slotname:%s->%s" % (ka, kb))
                d = locate(va, vb, types.get(ka, "meta:" + ka), where + ka)
                if d:
                    return d
            return (where, ftype, "differs")
        if tag == "grouped":
            if oa[1] != ob[1]:
                return (where + "<group>", ftype, "groupname")
            if len(oa[2]) != len(ob[2]):
                return (where + "<group>", ftype, "members:%d->%d" % (len(oa[2]), len(ob[2])))
            for i, (x, y) in enumerate(zip(oa[2], ob[2])):
                d = locate(x, y, ftype, where + "g%d." % i)
                if d:
                    return d
        if tag == "list" and oa[1] == ob[1] and len(oa[2]) == len(ob[2]):
            for i, (x, y) in enumerate(zip(oa[2], ob[2])):
                d = locate(x, y, ftype, where + "[%d]." % i if _is_node(x) and x[0] == "rec" else where)
                if d:
                    return d
    return (where, ftype, diff_class(oa, ob))


def diff_class(oa, ob):
    """Short stable class of the difference between two value observations, e.g. ip[2]:6->4, path->list, str[2]"""
    if _is_node(oa) and _is_node(ob):
        if oa[0] != ob[0]:
            return "%s->%s" % (oa[0], ob[0])
        if len(oa) != len(ob):
            return "%s:arity" % oa[0]
        if oa[0] == "dict" and len(oa) == 2 and isinstance(oa[1], list) and isinstance(ob[1], list) \
                and all(isinstance(p, list) and len(p) == 2 for p in oa[1] + ob[1]):
            # key differences (set, order) and value differences are different classes; values are descended into
            ka, kb = [p[0] for p in oa[1]], [p[0] for p in ob[1]]
            if len(ka) != len(kb):
                return "dict:len:%d->%d" % (len(ka), len(kb))
            if first_diff(ka, kb) is not None:
                if sorted(map(repr, ka)) == sorted(map(repr, kb)):
                    return "dict:key-order"
                return "dict:keys-differ"
            for p, q in zip(oa[1], ob[1]):
                if first_diff(p[1], q[1]) is not None:
                    return "dict:value." + diff_class(p[1], q[1])
        for i in range(1, len(oa)):
            if first_diff(oa[i], ob[i]) is not None:
                x, y = oa[i], ob[i]
                if _is_node(x) and _is_node(y):
                    return "%s[%d].%s" % (oa[0], i, diff_class(x, y))
                if isinstance(x, list) and isinstance(y, list):
                    if len(x) != len(y):
                        return "%s[%d]:len:%d->%d" % (oa[0], i, len(x), len(y))
                    for j, (p, q) in enumerate(zip(x, y)):
                        if first_diff(p, q) is not None:
                            if _is_node(p) and _is_node(q):
                                return "%s[%d][*].%s" % (oa[0], i, diff_class(p, q))
                            return "%s[%d][%d]:%s->%s" % (oa[0], i, j, _short(p), _short(q))
                return "%s[%d]:%s->%s" % (oa[0], i, _short(x), _short(y))
    return "%s->%s" % (_short(oa), _short(ob))


def list_diff(la, lb):
    """Compare two lists of record observations -> None or (index, where, field type, class)."""
    if len(la) != len(lb):
        return (-1, "<count>", "?", "count:%d->%d" % (len(la), len(lb)))
    for i, (a, b) in enumerate(zip(la, lb)):
        d = locate(a, b)
        if d:
            return (i,) + d
    return None
