"""The record-sequence space shared by C01 / C02 (DESIGN C01: S1..S5)."""
from __future__ import annotations

from .alphabets import LISTABLE, PAIR_ATOMS, TYPE_ALPHABET, alphabet
from .recs import rs

SCALAR_TYPES = list(TYPE_ALPHABET.keys())

A = rs("t/a", [["string", "a"], ["varint", "n"]], ["'va'", "1"])
A2 = rs("t/a", [["varint", "n"], ["string", "b"], ["boolean", "c"]], ["2", "'vb'", "True"])
C = rs("t/c", [["path", "p"], ["datetime", "ts"]], ["windows_path('C:\\\\c')", "dt(2020,6,1,12,0,0,5,tz=off(5,30))"])
X = rs("t/onlynested", [["net.ipaddress", "ip"], ["bytes", "raw"]], ["'2001:db8::1'", "b'\\x00\\xff'"])
BIG = rs("t/big", [["varint", "v"], ["varint[]", "vs"]], ["-2**200", "[2**64, -2**63-1, 0]"])
E = rs("t/empty", [], [])
N_A = rs("t/holder", [["record", "sub"], ["string", "tag"]], [A, "'h'"])
N_X = rs("t/holders", [["record[]", "subs"], ["record", "one"]], [[X, X], None])
G = {"group": "g/ac", "members": [A, C]}
G_X = {"group": "g/x", "members": [X, E]}
# same group name and flattened field list as G, split over other member types
G_ALT = {"group": "g/ac", "members": [rs("t/a1", [["string", "a"]], ["'va'"]),
                                      rs("t/c1", [["varint", "n"], ["path", "p"], ["datetime", "ts"]], ["1", "windows_path('C:\\c')", "dt(2020,6,1,12,0,0,5,tz=off(5,30))"])]}

# a record that cannot be encoded (lone high surrogate): its write raises, the caller skips it and carries on
F_BAD = dict(rs("t/f", [["string", "s"], ["record", "sub"]], ["chr(0xd800)", X]), xfail=True)
F_OK = rs("t/f", [["string", "s"], ["record", "sub"]], ["'fine'", X])

# refused inside Record._pack() (a raw value appended in place to a typed list), i.e. before the packer returns
F_BAD2 = dict(rs("t/f2", [["uint32[]", "xs"], ["string", "s"]], ["[1]", "'bad'"]), xfail=True, mutate=[["xs", "'not a number'"]])
F_OK2 = rs("t/f2", [["uint32[]", "xs"], ["string", "s"]], ["[2]", "'fine'"])
# two type names that differ only in '/' versus '_' (same Python-safe class name), identical field lists
U1 = rs("u/v_w", [["string", "s"], ["varint", "n"]], ["'one'", "1"])
U2 = rs("u/v/w", [["string", "s"], ["varint", "n"]], ["'two'", "2"])

# descriptors that come into being through another path than RecordDescriptor(name, fields), from a base that is already in use
D_BASE = rs("t/d", [["string", "a"]], ["'va'"])
D_EXT = dict(rs("t/d", [["string", "a"], ["varint", "n"]], ["'va'", "1"]), via=["extend", 1])
D_CLONE = dict(rs("t/dclone", [["string", "a"]], ["'vc'"]), via=["clone", "t/d"])
D_STR = dict(rs("t/dstr", [["string", "a"], ["varint", "n"]], ["'vs'", "2"]), via=["strdef"])
D_UNP = dict(rs("t/d", [["string", "a"], ["varint", "n"]], ["'vu'", "3"]), via=["unpack"])  # equal to D_EXT's, another object
D_MERGE = dict(rs("t/d", [["string", "a"], ["boolean", "c"]], ["'vm'", "True"]), via=["merge", 1])
# same name and field names, types differ only in the backwards-compatible alias spelling
AL1 = rs("t/al", [["string", "s"], ["net.ipaddress", "ip"], ["net.ipnetwork[]", "nets"]], ["'x'", "'1.2.3.4'", "['10.0.0.0/8']"])
AL2 = rs("t/al", [["wstring", "s"], ["net.IPAddress", "ip"], ["net.IPNetwork[]", "nets"]], ["'x'", "'1.2.3.4'", "['10.0.0.0/8']"])

# two types of one name whose (name, 32-bit hash) identifiers coincide: the hash covers the concatenated field names and types only
K1 = rs("t/k", [["stringlist", "a"], ["string", "b"]], ["['p', 'q']", "'vb'"])
K2 = rs("t/k", [["string", "a"], ["string", "listb"]], ["'plain'", "'vlb'"])
G_K2 = {"group": "g/k2c", "members": [K2, C]}  # the second of the pair only as a member of a grouped record

G_GEN = dict(G_X, group="g/gen", members_as="generator")  # members handed over as a one-shot iterable
N_E = rs("t/holdsempty", [["record", "sub"], ["record[]", "subs"]], [E, [E]])  # a field-less type that occurs only nested

G_NEST = {"group": "g/outer", "members": [{"group": "g/inner", "members": [A, C, X]}, E]}  # a grouped record built from a grouped record

SHAPES = {"K1": K1, "K2": K2, "G_K2": G_K2, "G_NEST": G_NEST, "G_GEN": G_GEN, "N_E": N_E, "D_BASE": D_BASE, "D_EXT": D_EXT, "D_CLONE": D_CLONE, "D_STR": D_STR, "D_UNP": D_UNP, "D_MERGE": D_MERGE, "AL1": AL1, "AL2": AL2, "F_BAD2": F_BAD2, "F_OK2": F_OK2, "U1": U1, "U2": U2, "F_BAD": F_BAD, "F_OK": F_OK, "A": A, "A2": A2, "C": C, "BIG": BIG, "E": E, "N_A": N_A, "N_X": N_X, "G": G, "G_X": G_X, "G_ALT": G_ALT}


def expand(case):
    """Record specs of a case. Long histories are kept as a generator literal ("gen") so that cases, replays and reports stay
    small: ["periodic", [shape names], N] = the pattern repeated up to N records; ["manytypes", T, flavour] = T distinct
    record types written once each and then early / middle / late ones again (flavour: "names" = same fields under T names,
    "fields" = one name with T different field lists, "both"); ["sizes", [n1, n2, ...]] = records of one type whose text field has
    exactly n_i code points, in that order (buffer and chunk boundaries)."""
    g = case.get("gen")
    if not g:
        return case["records"]
    if g[0] == "periodic":
        pat = [SHAPES[n] for n in g[1]]
        return [pat[i % len(pat)] for i in range(g[2])]
    if g[0] == "manytypes":
        n, fl = g[1], g[2]
        specs = []
        for i in range(n):
            name = "t/m%d" % i if fl in ("names", "both") else "t/many"
            fields = [["varint", "n"], ["string", "s"]] if fl == "names" else [["varint", "n"], ["string", "s%d" % i]] + ([["string[]", "l"]] if i % 3 == 0 else [])
            specs.append(rs(name, fields, [str(i), "'v%d'" % i] + (["['e%d']" % i] if len(fields) == 3 else [])))
        new = [rs("t/late%d" % i, [["string", "late%d" % i]], ["'L%d'" % i]) for i in range(6)]
        # early / middle / late types again, plain and - next to a type that was never seen before - nested, listed and grouped
        tail = [specs[0], specs[1], specs[n // 2], specs[n - 1], specs[0],
                rs("t/holdlate", [["record", "sub"], ["record", "fresh"]], [specs[2], new[0]]),
                {"group": "g/late1", "members": [specs[3], new[1]]}, {"group": "g/late2", "members": [new[2], specs[4]]},
                rs("t/holdlate2", [["record[]", "subs"]], [[specs[5], new[3], specs[n - 2]]])]
        return specs + tail + specs[::-1][: min(n, 300)]
    if g[0] == "hot":
        # one long-lived type in constant use between T types that appear once (what a collector with one main record type and
        # many incidental ones produces): H, m0, H, m1, ...; "nested" uses H only inside a holder / grouped record
        n, form = g[1], g[2]
        H = rs("t/hot", [["string", "h"], ["varint", "i"]], ["'hot'", "7"])
        out = []
        for i in range(n):
            m = rs("t/inc%d" % i, [["varint", "n"], ["string", "s%d" % i]], [str(i), "'v%d'" % i])
            if form == "plain":
                out += [H, m]
            elif form == "nested":
                out += [rs("t/hothold", [["record", "sub"], ["varint", "k"]], [H, str(i)]), m]
            else:
                out += [{"group": "g/hot", "members": [H, rs("t/gmate", [["varint", "k"]], [str(i)])]}, m]
        return out
    if g[0] == "lrusweep":
        # T types once each, then - newest first, every second one, starting at T-1-start - each of them again next to a type never
        # seen before (nested / grouped). Whatever bound C < T a registry has, one of these records uses the entry that is oldest at
        # that moment together with a new one, which is where two ends that forget in different orders part ways.
        n, start, form = g[1], g[2], g[3]
        specs = [rs("t/w%d" % i, [["varint", "n"], ["string", "s%d" % i]], [str(i), "'v%d'" % i]) for i in range(n)]
        out = list(specs)
        for k, i in enumerate(range(n - 1 - start, -1, -1)):
            fresh = rs("t/fresh%d" % k, [["string", "f%d" % k]], ["'F%d'" % k])
            if form == "nested":
                out.append(rs("t/sweephold%d" % (k % 2), [["record", "old"], ["record", "fresh"]], [specs[i], fresh]))
            else:
                out.append({"group": "g/sweep", "members": [specs[i], fresh]})
        return out
    if g[0] == "bigfirst":
        # a few small records, then the FIRST record of a type (plain / the nested member of a known holder / a grouped member)
        # carries a value of n bytes - its descriptor has to be on the wire before it however the writer batches - then small ones
        n, form = g[1], g[2]
        big = rs("t/bigfirst", [["bytes", "blob"], ["string", "tag"]], ["S(b'\\x07', %d)" % n, "'big'"])
        small = rs("t/bigfirst", [["bytes", "blob"], ["string", "tag"]], ["b'x'", "'small'"])
        if form == "plain":
            mid = [big, small]
        elif form == "nested":
            mid = [rs("t/bighold", [["record", "sub"], ["string", "tag"]], [big, "'h'"]), small]
        elif form == "list":
            mid = [rs("t/bigholds", [["record[]", "subs"]], [[A, big]]), small]
        else:
            mid = [{"group": "g/big", "members": [A, big]}, small]
        return [A, A2, A] + mid + [A, C]
    if g[0] == "stride":
        # N equal records of one type whose frame length is odd: the frame starts take every residue modulo any block size <= N,
        # so a reader or writer working in blocks of 4 KiB .. 64 KiB (256 KiB in thorough) meets every split of prefix and body
        n = g[1]
        return [_odd_frame_spec()] * n
    if g[0] == "align":
        # the first record is padded so that the stream up to and including its frame is exactly boundary+delta bytes long; five
        # small records of two types follow (a reader or writer working in blocks of `boundary` meets every split of the next
        # length prefix / frame). The padding is found by writing with the implementation under test and measuring.
        boundary, delta = g[1], g[2]
        return _aligned(boundary + delta)
    if g[0] == "sizes":
        return [rs("t/sized", [["varint", "i"], ["string", "s"], ["bytes", "b"]], [str(i), "S('%s', %d)" % ("abcdefghij"[i % 10], n), "S(b'\\x%02x', %d)" % (i % 256, n // 3)]) for i, n in enumerate(g[1])]
    raise ValueError(g)


_ALIGN_CACHE = {}


def _aligned(target):
    import io

    from flow.record import RecordStreamWriter

    from . import recs

    def specs_for(n):
        first = rs("t/pad", [["varint", "i"], ["string", "pad"]], ["0", "S('p', %d)" % n])
        rest = [rs("t/pad", [["varint", "i"], ["string", "pad"]], [str(i), "'s%d'" % i]) if i % 2 else A for i in range(1, 6)]
        return [first] + rest

    def size(n):
        buf = io.BytesIO()
        w = RecordStreamWriter(buf)
        w.write(recs.build_record(specs_for(n)[0]))
        w.flush()
        return len(buf.getvalue())

    if target not in _ALIGN_CACHE:
        n = max(0, target - size(0))
        for _ in range(6):
            d = target - size(n)
            if d == 0:
                break
            n = max(0, n + d)
        _ALIGN_CACHE[target] = n if size(n) == target else None
    n = _ALIGN_CACHE[target]
    return specs_for(n if n is not None else 1)


_ODD = []


def _odd_frame_spec():
    import io

    from flow.record import RecordStreamWriter

    from . import recs

    if not _ODD:
        for pad in ("", "x"):
            spec = rs("t/stride", [["varint", "i"], ["string", "p"]], ["5", "'%s'" % pad])
            buf = io.BytesIO()
            w = RecordStreamWriter(buf)
            r = recs.build_record(spec)
            w.write(r)
            w.flush()
            a = len(buf.getvalue())
            w.write(r)
            w.flush()
            if (len(buf.getvalue()) - a) % 2:
                _ODD.append(spec)
                break
        else:
            _ODD.append(spec)
    return _ODD[0]


def long_cases(tier):
    """S6: histories long enough to fill and cycle every counter, cache and buffer on the way (sizes chosen around the bounds in
    the code: lru sizes 256 / 1000 / 1024 / 4096, io.DEFAULT_BUFFER_SIZE 8192, 64 KiB, gzip/zstd block sizes)."""
    thorough = tier == "thorough"
    pats = [[n] for n in ("A", "C", "G", "N_X", "BIG", "E", "K1")] + [["A", "A2"], ["K1", "K2"], ["A", "C"], ["G", "G_ALT"], ["U1", "U2"], ["N_A", "A"], ["A", "F_BAD", "A2"], ["G_K2", "K1"], ["D_BASE", "D_EXT", "D_UNP"], ["AL1", "AL2"], ["A", "A2", "C", "N_X", "G", "K1", "K2", "E"]]
    for pat in pats:
        for n in ((130, 1030) if not thorough else (130, 257, 1030, 4100)):
            if n > 300 and len(pat) == 1 and not thorough:
                continue
            yield {"kind": "s6", "t": "periodic", "light": n > 300, "gen": ["periodic", pat, n]}
    for fl in ("names", "fields", "both"):
        for n in ((260, 1030) if not thorough else (260, 1030, 4100, 4200)):
            yield {"kind": "s6", "t": "manytypes", "light": n > 300, "gen": ["manytypes", n, fl]}
    for form in ("plain", "nested", "grouped"):
        for n in ((140, 1030) if not thorough else (70, 140, 300, 1030, 4100)):
            yield {"kind": "s6", "t": "hot", "light": n > 300, "gen": ["hot", n, form]}
    for form in ("nested", "grouped"):
        for n in ((300,) if not thorough else (150, 300, 1100)):
            for start in (0, 1):
                yield {"kind": "s6", "t": "lrusweep", "light": True, "gen": ["lrusweep", n, start, form]}
    for b in ([4096, 8192, 65536, 131072] + ([16384, 32768, 262144, 1 << 20] if thorough else [])):
        for delta in range(-6, 7):
            yield {"kind": "s6", "t": "align", "light": True, "gen": ["align", b, delta]}
    for form in ("plain", "nested", "list", "grouped"):
        for n in ([4096, 8192, 65536 - 64, 65536, 100000, 131072 + 5] + ([16384, 32768, 262144, (1 << 20) + 1, 3 << 20] if thorough else [])):
            yield {"kind": "s6", "t": "bigfirst", "light": True, "gen": ["bigfirst", n, form]}
    yield {"kind": "s6", "t": "stride", "light": True, "gen": ["stride", 65536 + 9]}
    if thorough:
        yield {"kind": "s6", "t": "stride", "light": True, "gen": ["stride", (1 << 18) + 9]}
    edges = [8192, 65536] + ([4096, 16384, 131072, 1 << 20] if thorough else [])
    for e in edges:
        # a run of records whose text sizes walk over the edge one code point at a time, and the same sizes in falling order
        walk = list(range(e - 40, e + 9))
        yield {"kind": "s6", "t": "sizes", "light": True, "gen": ["sizes", walk]}
        yield {"kind": "s6", "t": "sizes", "light": True, "gen": ["sizes", walk[::-1][:20] + [1, e, 2, e + 1]]}
    yield {"kind": "s6", "t": "sizes", "light": True, "gen": ["sizes", [37 * i for i in range(260)]]}


def small(spec):
    return not (spec.startswith("S(") and any(n in spec for n in ("65535", "65536")))


def cases(tier, seed):
    thorough = tier == "thorough"
    # S1 scalar
    for t in SCALAR_TYPES:
        for v in alphabet(t, seed):
            yield {"kind": "s1", "t": t, "records": [rs("s/one", [[t, "x"]], [v])]}
    # S1 lists: all lists of length 0..2 over the (small) alphabet
    for t in LISTABLE:
        elems = [v for v in alphabet(t, seed, with_none=False) if small(v)]
        if not thorough:
            elems = elems[:12]
        lt = t + "[]"
        yield {"kind": "s1", "t": lt, "records": [rs("s/list", [[lt, "xs"]], ["None"])]}
        yield {"kind": "s1", "t": lt, "records": [rs("s/list", [[lt, "xs"]], ["[]"])]}
        for a in elems:
            yield {"kind": "s1", "t": lt, "records": [rs("s/list", [[lt, "xs"]], ["[%s]" % a])]}
        for a in elems:
            for b in elems:
                yield {"kind": "s1", "t": lt, "records": [rs("s/list", [[lt, "xs"]], ["[%s, %s]" % (a, b)])]}
    yield {"kind": "s1", "t": "string[]", "records": [rs("s/list", [["string[]", "xs"]], ["list(S('x',16))"])]}
    yield {"kind": "s1", "t": "string[]", "records": [rs("s/list", [["string[]", "xs"]], ["list(S('x',65536))"])]}
    yield {"kind": "s1", "t": "varint[]", "records": [rs("s/list", [["varint[]", "xs"]], ["list(range(-5,65540))"])]}
    # size classes beyond 2**17 elements / 2**15 keys / 2**24 bytes
    # ("light": judged on the low-level and path channels / the current wire variant only - one such case costs seconds)
    yield {"kind": "s1", "t": "varint[]", "light": True, "records": [rs("s/list", [["varint[]", "xs"]], ["list(range(131073))"])]}
    yield {"kind": "s1", "t": "stringlist", "light": True, "records": [rs("s/one", [["stringlist", "x"]], ["list(S('z', 131073))"])]}
    yield {"kind": "s1", "t": "dictlist", "light": True, "records": [rs("s/one", [["dictlist", "x"]], ["[dict((str(i), i) for i in range(32769))]"])]}
    if thorough:
        yield {"kind": "s1", "t": "string", "light": True, "records": [rs("s/one", [["string", "x"]], ["S('x', 17 * 1024 * 1024)"])]}
        yield {"kind": "s1", "t": "bytes", "light": True, "records": [rs("s/one", [["bytes", "x"]], ["S(b'\\x00', 17 * 1024 * 1024)"])]}
    # S2 pairs of (type, value) atoms incl. a keyword-named field (slow template)
    atoms = PAIR_ATOMS
    for i, (t1, v1) in enumerate(atoms):
        for j, (t2, v2) in enumerate(atoms):
            n1, n2 = ("a", "b") if (i + j) % 5 else ("from", "b")
            yield {"kind": "s2", "t": t1 + "," + t2, "records": [rs("s/pair", [[t1, n1], [t2, n2]], [v1, v2])]}
    # three fields of the same type, zero fields
    for t in ("string", "varint", "datetime", "path"):
        al = alphabet(t, seed)[:4]
        for a in al:
            for b in al:
                for c in al[:2]:
                    yield {"kind": "s2", "t": t * 1 + "*3", "records": [rs("s/tri", [[t, "p"], [t, "q"], [t, "r"]], [a, b, c])]}
    # S3 metadata
    texts = ["None", "''", "'src'", "'\\udc80'", "b'by\\xff'"]
    for s in texts:
        for c in texts:
            for g in alphabet("datetime", seed, with_none=False)[:14]:
                yield {"kind": "s3", "t": "meta",
                       "records": [rs("s/meta", [["string", "a"]], ["'m'"], _source=s, _classification=c, _generated=g)]}
    # S4 sequences over record shapes
    names = list(SHAPES)
    L = 4 if thorough else 3
    import itertools

    for k in range(1, L + 1):
        pool = names if k <= 2 else (["A", "A2", "C", "N_A", "N_X", "G", "G_X", "G_ALT", "BIG", "F_BAD", "F_OK", "F_BAD2", "F_OK2", "U1", "U2", "D_BASE", "D_EXT", "D_CLONE", "AL1", "AL2", "K1", "K2", "G_K2"] if k == 3 else ["A", "A2", "N_X", "G_X", "G", "G_ALT"])
        for seq in itertools.product(pool, repeat=k):
            yield {"kind": "s4", "t": "seq", "shape": list(seq), "records": [SHAPES[n] for n in seq]}
    yield from long_cases(tier)
    # S7 one instant in several spellings (equal and equally hashed as Python objects, different on the wire), and the two wall
    # clock readings of a fold: every ordered pair inside one record, in one list, and in two consecutive records of one stream
    same = ["dt(2021,3,4,12,0,0,250,tz=UTC)", "dt(2021,3,4,14,0,0,250,tz=off(2))", "dt(2021,3,4,6,30,0,250,tz=off(5,30,neg=True))",
            "dt(2021,3,4,13,0,0,250,tz=Z('Europe/Amsterdam'))", "dt(2021,3,4,12,0,0,250)", "dt(2021,3,4,12,0,37,250,tz=off(0,0,37))",
            "dt(2021,10,31,2,30,0,0,tz=Z('Europe/Amsterdam'))", "dt(2021,10,31,2,30,0,0,tz=Z('Europe/Amsterdam'),fold=1)",
            "dt(2021,10,31,0,30,0,0,tz=UTC)", "dt(2021,10,31,1,30,0,0,tz=UTC)"]
    for a in same:
        for b in same:
            yield {"kind": "s7", "t": "datetime", "records": [rs("s/same", [["datetime", "a"], ["datetime", "b"], ["datetime[]", "l"]], [a, b, "[%s, %s]" % (b, a)])]}
            yield {"kind": "s7", "t": "datetime", "records": [rs("s/ts", [["datetime", "ts"]], [a]), rs("s/ts", [["datetime", "ts"]], [b]), rs("s/ts", [["datetime", "ts"]], [a])]}
            yield {"kind": "s7", "t": "datetime", "records": [rs("s/meta", [["string", "a"]], ["'m'"], _generated=a), rs("s/meta", [["string", "a"]], ["'m'"], _generated=b)]}
    # S5 atoms wrapped as record / record[] / grouped member
    for t in SCALAR_TYPES:
        for v in alphabet(t, seed)[: (40 if thorough else 7)]:
            inner = rs("w/inner", [[t, "x"]], [v])
            yield {"kind": "s5", "t": t, "records": [rs("w/rec", [["record", "r"]], [inner])]}
            yield {"kind": "s5", "t": t, "records": [rs("w/recs", [["record[]", "rs"]], [[inner, inner]])]}
            yield {"kind": "s5", "t": t, "records": [{"group": "w/g", "members": [inner, A]}]}
