"""Selector legs shared by C08 and C10: ONE selector object over a long stream of records of MANY record types.

Every record type occurs once; types alternately have and lack the field the selector asks for (phase 0: the first type lacks it,
phase 1: the first type has it). The verdict on every record must be the reference meaning (C08 reading: a comparison with a missing
field is False) - whatever the selector, the matcher or the process remembers about the record types it saw before."""
from __future__ import annotations

from . import recs, refsel
from .recs import rs
from .report import jhash

EXPRS = ["r.f == 'x'", "'x' in r.f", "r.n >= 0 and r.f == 'x'", "r.f == 'x' or r.n == 3", "Type.string == 'x'", "field_equals(r, ['f'], ['x'])",
         "field_contains(r, ['f', 'g'], ['x'])", "has_field(r, 'f')", "lower(r.f) == 'x'", "r.f != 'y'", "not r.f == 'x'", "any(c == 'x' for c in r.f)",
         "r.g == 'x' or r.f == 'x'", "r.f in ['x', 'y']", "r.f < 'y'",
         "r.link.filename == 'a.txt'", "r.f == 'x' and r.link.netloc == 'h.example'", "Type.uri.filename == 'a.txt'"]

_POOL = {}
_TWINS = {}


def records(T):
    if T not in _POOL:
        out = []
        for i in range(T):
            for has in (False, True):
                # (types that have f also have a uri field that is unset in every third of them: an attribute read on an unset value)
                fields = [["varint", "n"], ["varint", "u%d" % i]] + ([["string", "f"], ["uri", "link"]] if has else [])
                spec = rs("md/t%d%s" % (i, "f" if has else ""), fields, [str(i % 5), "1"] + (["'x'" if i % 3 else "'q'", "None" if i % 3 == 0 else "'http://h.example/d/a.txt'"] if has else []))
                if i % 4 == 3:
                    # every fourth one inside a grouped record: ONE Python class and ONE group name for all of them, another make-up each
                    spec = {"group": "md/g", "members": [rs("md/mate", [["string", "m"]], ["'mate'"]), spec]}
                out.append(recs.build_record(spec))
                if has and i % 4 != 3 and i < 90:
                    # a second record of the very same type whose uri field is set where the first one's is unset (and the other way round)
                    tw = rs("md/t%df" % i, fields, [str(i % 5), "1", "'x'", "'http://h.example/d/a.txt'" if i % 3 == 0 else "None"])
                    _TWINS.setdefault(T, []).append(recs.build_record(tw))
        _POOL[T] = out
    return _POOL[T]


def cases(tier):
    for T in ((70, 300) if tier != "thorough" else (70, 140, 300, 1100, 4200)):
        for expr in EXPRS:
            for phase in (1, 0):  # (the first type / first grouped record lacks the field: first)
                yield {"kind": "manydesc", "expr": expr, "T": T, "phase": phase}


def run(case, prop):
    from flow.record.selector import CompiledSelector, Selector

    expr, T, phase = case["expr"], case["T"], case["phase"]
    pool = records(T)
    def has(i):  # plain types alternate; the grouped ones (every fourth) alternate among themselves
        return ((i + phase) % 2) if i % 4 != 3 else ((i // 4 + phase + 1) % 2)

    seq = [pool[2 * i + has(i)] for i in range(T)]
    # then the other variant of every type (same name prefix, other field list), newest first
    seq += [pool[2 * i + 1 - has(i)] for i in range(T - 1, -1, -1)][: min(T, 200)]
    seq += _TWINS.get(T, [])
    viol = []
    outs = []
    for engine, cls in (("interpreted", Selector), ("compiled", CompiledSelector)):
        try:
            sel = cls(expr)
        except Exception:  # noqa: BLE001
            outs.append("ctor-raises")
            continue
        for k, rec in enumerate(seq):
            ref = refsel.evaluate_c08(expr, rec)
            try:
                got = ["v", bool(sel.match(rec))]
            except RecursionError:
                raise
            except Exception as e:  # noqa: BLE001
                got = ["e", type(e).__name__]
            if ref[0] != "value":
                continue
            if engine == "compiled" and not refsel.in_language(expr, compiled=True):
                continue
            if got != ["v", ref[1]]:
                # (no "fresh selector" comparison here: what a process-wide cache remembers makes a fresh selector wrong in the same way)
                viol.append(("%s:many-record-types:%s:%s" % (prop, engine, "raises-" + got[1] if got[0] == "e" else "verdict-depends-on-types-seen-before"), case,
                             {"expr": expr, "record_index": k, "type": rec._desc.name, "got": got, "reference": ref[1]}))
                break
        outs.append("manydesc:%s" % engine[0])
    return {"ev": 2 * len(seq), "h": jhash(case), "nt": True, "out": outs, "viol": viol, "count": {"match_events": 2 * len(seq)}}
