#!/venv/bin/python
"""Run the pinned suite on a directory (default /repo) and compare with BASELINE stable_pass. exit 0 = all stable tests pass."""
import json, os, subprocess, sys, tempfile, xml.etree.ElementTree as ET
d = sys.argv[1] if len(sys.argv) > 1 else "/repo"
x = tempfile.mktemp(suffix=".xml", dir="/dev/shm")
env = dict(os.environ, PYTHONPATH=d)
env.pop("FLOW_RECORD_VERIF", None)
subprocess.run(["/venv/bin/python", "-m", "pytest", "-q", "-p", "no:cacheprovider", "--timeout=900", "--continue-on-collection-errors",
                "--junitxml=" + x, "-x" if "-x" in sys.argv else "-q"], cwd=d, env=env, stdout=subprocess.DEVNULL, stderr=subprocess.DEVNULL)
passed = set()
for tc in ET.parse(x).getroot().iter("testcase"):
    if not any(c.tag in ("failure", "error", "skipped") for c in tc):
        passed.add(tc.get("classname") + "::" + tc.get("name"))
os.unlink(x)
stable = set(json.load(open("/root/.vp/BASELINE.json"))["stable_pass"])
missing = sorted(stable - passed)
print("stable=%d passed=%d missing=%d" % (len(stable), len(passed), len(missing)))
for m in missing[:20]:
    print("  FAIL", m)
sys.exit(1 if missing else 0)
