#!/venv/bin/python
"""Apply a drafted repair from mutations/fix-sketches-round0.json to a tree (default /repo). usage: applyfix.py 'D5' [dir]"""
import json, os, sys
HERE = os.path.dirname(os.path.dirname(os.path.abspath(__file__)))
d = sys.argv[2] if len(sys.argv) > 2 else "/repo"
for x in json.load(open(os.path.join(HERE, "mutations", "fix-sketches-round0.json"))):
    if x["title"].startswith(sys.argv[1] + " "):
        for fn, eds in x["edits"].items():
            p = os.path.join(d, fn)
            s = open(p).read()
            for o, n in eds:
                assert o in s, (fn, o)
                s = s.replace(o, n, 1)
            open(p, "w").write(s)
        print("applied", x["title"], "to", d)
        break
else:
    sys.exit("no sketch " + sys.argv[1])
