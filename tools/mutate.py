#!/venv/bin/python
"""Apply stored mutation candidates (or seeded patches) to a scratch copy of /repo and run checks against it.

usage: tools/mutate.py <check-id> <candidate-id|seeded-dir> [...]   e.g. tools/mutate.py C01 C01e C01h
       tools/mutate.py --all C01        (every surviving candidate whose id starts with C01)
Prints CAUGHT / MISSED per mutation. Scratch copies live in /dev/shm and are removed.
"""
import json
import os
import shutil
import subprocess
import sys
import tempfile

HERE = os.path.dirname(os.path.dirname(os.path.abspath(__file__)))


def load():
    with open(os.path.join(HERE, "mutations", "candidates-round0.json")) as f:
        c = {x["id"]: x for x in json.load(f)}
    p = os.path.join(HERE, "mutations", "candidates-extra.json")
    if os.path.exists(p):
        with open(p) as f:
            c.update({x["id"]: x for x in json.load(f)})
    return c


def scratch():
    d = tempfile.mkdtemp(prefix="mut-", dir="/dev/shm")
    subprocess.run("cd /repo && git archive HEAD | tar -x -C %s" % d, shell=True, check=True)
    # working-tree state (uncommitted edits are part of 'current tree')
    subprocess.run("cd /repo && git diff HEAD | (cd %s && git apply --allow-empty -)" % d, shell=True, check=False)
    shutil.copy("/repo/flow/record/version.py", os.path.join(d, "flow/record/version.py"))
    return d


def apply_candidate(d, cand):
    files = cand.get("edits") or {cand["file"]: cand["replacements"]}
    for fn, reps in files.items():
        p = os.path.join(d, fn)
        s = open(p).read()
        for old, new in reps:
            if old not in s:
                raise LookupError("candidate %s: text not found in %s: %r" % (cand["id"], fn, old[:60]))
            s = s.replace(old, new, 1)
        open(p, "w").write(s)


def apply_patch(d, patch):
    subprocess.run(["git", "apply", "--unsafe-paths", "--directory", d, patch], check=False, cwd="/")
    r = subprocess.run("cd %s && patch -p1 --dry-run -R < %s >/dev/null 2>&1" % (d, patch), shell=True)
    if r.returncode != 0:
        r = subprocess.run("cd %s && patch -p1 < %s" % (d, patch), shell=True)
        if r.returncode != 0:
            raise SystemExit("patch failed: " + patch)


def run_check(check, d, tier="quick"):
    env = dict(os.environ)
    r = subprocess.run([os.path.join(HERE, "check"), check, "--repo", d, "--tier", tier], capture_output=True, text=True, env=env)
    viol = [l for l in r.stdout.splitlines() if l.startswith("VIOLATION")]
    sigs = [l.strip() for l in r.stdout.splitlines() if l.strip().startswith("signature:")]
    return r.returncode, viol, sigs, r.stdout, r.stderr


def main():
    args = sys.argv[1:]
    tier = "quick"
    if "--thorough" in args:
        args.remove("--thorough")
        tier = "thorough"
    cands = load()
    if args[0] == "--all":
        check = args[1]
        ids = [i for i, c in cands.items() if i.startswith(check) and c.get("suite_status") in ("survives", "survived", "suite ok")]
    else:
        check, ids = args[0], args[1:]
    rc_all = 0
    for i in ids:
        d = scratch()
        try:
            if os.path.isdir(i) or os.path.isdir(os.path.join(HERE, "seeded", i)):
                sd = i if os.path.isdir(i) else os.path.join(HERE, "seeded", i)
                apply_patch(d, os.path.join(sd, "patch.diff"))
                title = sd
            else:
                try:
                    apply_candidate(d, cands[i])
                except LookupError as e:
                    print("%-8s %-10s %s" % ("STALE", i, e))
                    continue
                title = cands[i].get("title", "")
            rc, viol, sigs, out, err = run_check(check, d, tier)
            # evidence/replays were written for the mutant: restore happens on next real run
            status = "CAUGHT" if rc == 1 and viol else ("MISSED" if rc == 0 else "ERROR rc=%d" % rc)
            print("%-8s %-10s %-50s %s" % (status, i, title[:50], "; ".join(s.replace("signature: ", "") for s in sigs[:3])))
            if rc not in (0, 1):
                print(out[-800:], err[-800:])
            if status != "CAUGHT":
                rc_all = 1
        finally:
            shutil.rmtree(d, ignore_errors=True)
    return rc_all


if __name__ == "__main__":
    sys.exit(main())
