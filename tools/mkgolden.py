#!/venv/bin/python
"""Generate the frozen golden corpus at the pinned revision (69a5132). Run once; output committed under golden/."""
import gzip, io, json, os, shutil, subprocess, sys, tempfile

HERE = os.path.dirname(os.path.dirname(os.path.abspath(__file__)))
PIN = "69a5132"

if os.environ.get("GOLDEN_CHILD") != "1":
    d = tempfile.mkdtemp(prefix="pin-", dir="/dev/shm")
    try:
        subprocess.run("cd /repo && git archive %s | tar -x -C %s" % (PIN, d), shell=True, check=True)
        shutil.copy("/repo/flow/record/version.py", d + "/flow/record/version.py")
        env = dict(os.environ, PYTHONPATH=d + ":" + HERE, GOLDEN_CHILD="1", PYTHONHASHSEED="0")
        sys.exit(subprocess.run([sys.executable, "-W", "ignore", __file__], env=env).returncode)
    finally:
        shutil.rmtree(d, ignore_errors=True)

import flow.record
from flow.record import RecordStreamReader, RecordStreamWriter
from mc import lit, recs, streamspace, refcodec
from mc.obs import obs_list

lit.install_flow()
out = os.path.join(HERE, "golden")
shutil.rmtree(out, ignore_errors=True)
os.makedirs(out)
groups = {}
for c in streamspace.cases("quick", 0):
    if any("65536" in json.dumps(r) or "65535" in json.dumps(r) or "65540" in json.dumps(r) for r in c["records"]) and c["kind"] != "s1":
        continue
    if c["kind"] == "s1":
        key = "s1-" + c["t"].replace("[]", "_list").replace(".", "_")
    elif c["kind"] == "s4":
        if len(c["records"]) > 2:
            continue
        key = "s4-seq"
    elif c["kind"] == "s5":
        key = "s5-wrapped"
    else:
        key = c["kind"]
    groups.setdefault(key, []).extend(c["records"])
total = 0
for key, rspecs in sorted(groups.items()):
    if key.startswith("s1-") and "_list" in key:
        rspecs = rspecs[:40]
    if key == "s2":
        rspecs = rspecs[::3]
    if key == "s3":
        rspecs = rspecs[::5]
    keep, objs = [], []
    for r in rspecs:
        try:
            o = recs.build_record(r)
        except Exception:
            continue
        buf = io.BytesIO(); w = RecordStreamWriter(buf); w.write(o); w.flush()
        back = list(RecordStreamReader(io.BytesIO(buf.getvalue())))
        if obs_list(back) != obs_list([o]):
            continue  # lossy at the pinned revision (known findings): not part of the frozen expectation
        keep.append(r); objs.append(o)
    buf = io.BytesIO(); w = RecordStreamWriter(buf)
    for o in objs:
        w.write(o)
    w.flush()
    data = buf.getvalue()
    ref, _ = refcodec.decode_stream(data)
    assert ref == obs_list(objs), key
    open(os.path.join(out, key + ".records"), "wb").write(data)
    g = io.BytesIO()
    with gzip.GzipFile(fileobj=g, mode="wb", mtime=0) as f:
        f.write(data)
    open(os.path.join(out, key + ".records.gz"), "wb").write(g.getvalue())
    json.dump({"pinned": PIN, "records": keep, "obs": obs_list(objs)}, open(os.path.join(out, key + ".json"), "w"), ensure_ascii=True)
    total += len(data)
    print(key, len(keep), len(data))
print("files", len(groups), "bytes", total, "flow.record from", flow.record.__file__)
