#!/venv/bin/python
"""Apply each property-preserving change of benign/candidates.json to a scratch copy of /repo and run the checks against it.

Every check must stay silent (exit 0, no VIOLATION line): a check that reports one of these changes demands more than its property
states. usage: tools/benign.py [ids...] [--checks C01,C03] [--suite]   -> benign/RESULTS.json
"""
import json
import os
import shutil
import subprocess
import sys
import time
from concurrent.futures import ThreadPoolExecutor

HERE = os.path.dirname(os.path.dirname(os.path.abspath(__file__)))
sys.path.insert(0, os.path.join(HERE, "tools"))
import mutate  # noqa: E402

ALL = ["C%02d" % i for i in range(1, 21)]


def one(item):
    bid, cand, checks, suite = item
    d = mutate.scratch()
    out = {}
    try:
        p = os.path.join(d, cand["file"])
        s = open(p).read()
        if cand["old"] not in s:
            return bid, {"_": "STALE"}
        open(p, "w").write(s.replace(cand["old"], cand["new"], 1))
        if suite:
            r = subprocess.run([os.path.join(HERE, "tools", "suite.py"), d], capture_output=True, text=True)
            out["suite"] = r.stdout.strip().splitlines()[-1] if r.stdout.strip() else r.stderr[-200:]
        for ck in checks:
            t0 = time.time()
            try:
                r = subprocess.run([os.path.join(HERE, "check"), ck, "--repo", d], capture_output=True, text=True, timeout=1500)
                sigs = [ln.strip().replace("signature: ", "") for ln in r.stdout.splitlines() if ln.strip().startswith("signature:")]
                status = "silent" if r.returncode == 0 and "VIOLATION" not in r.stdout else ("ALARM" if r.returncode == 1 else "ERROR rc=%s" % r.returncode)
                out[ck] = {"status": status, "wall": round(time.time() - t0, 1), "signatures": sigs[:3], "stderr": r.stderr[-300:] if r.returncode not in (0, 1) else ""}
            except subprocess.TimeoutExpired:
                out[ck] = {"status": "TIMEOUT", "wall": round(time.time() - t0, 1), "signatures": []}
    finally:
        shutil.rmtree(d, ignore_errors=True)
    return bid, out


def main():
    args = sys.argv[1:]
    checks = ALL
    suite = "--suite" in args
    if suite:
        args.remove("--suite")
    if "--checks" in args:
        i = args.index("--checks")
        checks = args[i + 1].split(",")
        del args[i:i + 2]
    cands = json.load(open(os.path.join(HERE, "benign", "candidates.json")))["candidates"]
    ids = args or sorted(cands)
    rp = os.path.join(HERE, "benign", "RESULTS.json")
    res = json.load(open(rp)) if os.path.exists(rp) else {}
    with ThreadPoolExecutor(2) as ex:
        for bid, out in ex.map(one, [(i, cands[i], checks, suite) for i in ids]):
            res.setdefault(bid, {}).update(out)
            bad = {k: v["status"] for k, v in out.items() if isinstance(v, dict) and v["status"] != "silent"}
            print("%s %-70s %s %s" % (bid, cands[bid]["title"][:70], out.get("suite", ""), "all silent" if not bad else bad), flush=True)
    json.dump(res, open(rp, "w"), indent=1, sort_keys=True)


if __name__ == "__main__":
    main()
