#!/bin/bash
# run every claimed check's quick command for several seeds; print only non-silent results
cd "$(dirname "$0")/.."
ids=$(/venv/bin/python -c "import json;print(' '.join(c['property_id'] for c in json.load(open('MANIFEST.json'))['checks']))")
for s in ${@:-0 1 2 3 4}; do
  for id in $ids; do
    out=$(VERIF_SEED=$s ./check $id 2>&1); rc=$?
    if [ $rc -ne 0 ]; then echo "seed=$s $id rc=$rc"; echo "$out" | grep -E "VIOLATION|signature|INTERNAL" | head -5; fi
  done
done
echo "allseeds done"
