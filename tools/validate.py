"""Validate a JSON file against a schema (run with python3-vt, which has jsonschema). usage: validate.py file schema"""
import json, sys
import jsonschema
jsonschema.validate(json.load(open(sys.argv[1])), json.load(open(sys.argv[2])))
