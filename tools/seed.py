#!/venv/bin/python
"""Ingest seeded breaking changes produced by sub-agents.

usage: tools/seed.py ingest <property> <agent-out-dir> [<n> ...]     verify + copy into seeded/<property>-<n>/
       tools/seed.py run [<seed-id> ...] [--checks C01,C02]         run checks against seeded changes -> seeded/RESULTS.json
Verification (in a scratch copy of /repo HEAD under /dev/shm, removed afterwards): demo passes on the clean tree, demo
fails with the patch, pinned suite's stable_pass set still passes with the patch.
"""
import json
import os
import shutil
import subprocess
import sys
import tempfile

HERE = os.path.dirname(os.path.dirname(os.path.abspath(__file__)))
SEEDED = os.path.join(HERE, "seeded")


def scratch():
    d = tempfile.mkdtemp(prefix="seed-", dir="/dev/shm")
    subprocess.run("cd /repo && git archive HEAD | tar -x -C %s" % d, shell=True, check=True)
    shutil.copy("/repo/flow/record/version.py", os.path.join(d, "flow/record/version.py"))
    return d


def run_demo(d, demo):
    env = dict(os.environ, PYTHONPATH=d)
    env.pop("FLOW_RECORD_VERIF", None)
    r = subprocess.run(["/venv/bin/python", "-W", "ignore", demo], cwd=d, env=env, capture_output=True, text=True, timeout=600)
    return r.returncode, (r.stdout + r.stderr)[-600:]


def apply(d, patch):
    r = subprocess.run(["git", "apply", "--whitespace=nowarn", os.path.abspath(patch)], cwd=d, capture_output=True, text=True)
    if r.returncode != 0:
        r2 = subprocess.run("patch -p1 < %s" % os.path.abspath(patch), shell=True, cwd=d, capture_output=True, text=True)
        if r2.returncode != 0:
            return False, r.stderr + r2.stdout + r2.stderr
    return True, ""


def ingest(prop, outdir, ns):
    for n in ns:
        src = os.path.join(outdir, str(n))
        sid = "%s-%s%s" % (prop, os.environ.get("SEED_TAG", ""), n)
        if not os.path.exists(os.path.join(src, "patch.diff")):
            print(sid, "no patch.diff")
            continue
        d = scratch()
        try:
            rc0, out0 = run_demo(d, os.path.join(src, "demo.py"))
            ok, msg = apply(d, os.path.join(src, "patch.diff"))
            if not ok:
                print(sid, "PATCH DOES NOT APPLY to current HEAD:", msg[:300])
                continue
            rc1, out1 = run_demo(d, os.path.join(src, "demo.py"))
            rs = subprocess.run([os.path.join(HERE, "tools", "suite.py"), d], capture_output=True, text=True)
            suite_ok = rs.returncode == 0
            verdict = rc0 == 0 and rc1 != 0 and suite_ok
            print("%s demo_clean=%d demo_patched=%d suite=%s -> %s" % (sid, rc0, rc1, "ok" if suite_ok else "FAILS " + rs.stdout[-200:], "KEEP" if verdict else "DROP"))
            if not verdict:
                print("   clean:", out0[-200:].replace("\n", " | "))
                print("   patched:", out1[-200:].replace("\n", " | "))
                continue
            dst = os.path.join(SEEDED, sid)
            os.makedirs(dst, exist_ok=True)
            for fn in ("patch.diff", "demo.py", "README.txt"):
                if os.path.exists(os.path.join(src, fn)):
                    shutil.copy(os.path.join(src, fn), os.path.join(dst, fn))
            readme = open(os.path.join(src, "README.txt")).read() if os.path.exists(os.path.join(src, "README.txt")) else ""
            base = subprocess.run(["git", "-C", "/repo", "log", "--format=%h", "-1"], capture_output=True, text=True).stdout.strip()
            json.dump({
                "id": sid, "property": prop, "source": "sub-agent given only the property text and a scratch worktree",
                "repo_head_when_verified": base,
                "needs_to_manifest": readme.strip()[:1500],
                "verified": {"demo_on_clean_tree_exit": rc0, "demo_with_patch_exit": rc1, "suite_stable_pass_with_patch": suite_ok,
                             "commands": ["PYTHONPATH=<scratch> /venv/bin/python demo.py", "git apply patch.diff", "tools/suite.py <scratch>"]},
                "demo_output_with_patch": out1[-400:],
            }, open(os.path.join(dst, "meta.json"), "w"), indent=1)
        finally:
            shutil.rmtree(d, ignore_errors=True)


def run_one(job):
    sid, checks, nworkers = job
    meta = json.load(open(os.path.join(SEEDED, sid, "meta.json")))
    cks = checks or [meta["property"]]
    d = scratch()
    out = {}
    lines = []
    try:
        ok, msg = apply(d, os.path.join(SEEDED, sid, "patch.diff"))
        if not ok:
            lines.append("%s STALE (patch no longer applies)" % sid)
            return sid, {"stale": True}, lines
        for ck in cks:
            cmd = [os.path.join(HERE, "check"), ck, "--repo", d] + (["--workers", str(nworkers)] if nworkers else [])
            r = subprocess.run(cmd, capture_output=True, text=True, env=dict(os.environ))
            sigs = [l.strip().replace("signature: ", "") for l in r.stdout.splitlines() if l.strip().startswith("signature:")]
            status = "CAUGHT" if r.returncode == 1 and "VIOLATION" in r.stdout else ("MISSED" if r.returncode == 0 else "ERROR rc=%d" % r.returncode)
            lines.append("%-8s %-10s by %s  %s" % (status, sid, ck, "; ".join(sigs[:2])[:160]))
            if status.startswith("ERROR"):
                lines.append(r.stdout[-500:] + r.stderr[-500:])
            out[ck] = {"status": status, "signatures": sigs[:5]}
    finally:
        shutil.rmtree(d, ignore_errors=True)
    return sid, out, lines


def run(ids, checks, jobs=1):
    from concurrent.futures import ThreadPoolExecutor

    res_path = os.path.join(SEEDED, "RESULTS.json")
    ids = ids or sorted(x for x in os.listdir(SEEDED) if os.path.isdir(os.path.join(SEEDED, x)))
    results = {}
    with ThreadPoolExecutor(jobs) as ex:
        for sid, out, lines in ex.map(run_one, [(sid, checks, (max(2, 16 // jobs) if jobs > 1 else None)) for sid in ids]):
            results[sid] = out
            print("\n".join(lines), flush=True)
    # merge with what other runs wrote in the meantime (only the ids of this run are replaced / extended)
    latest = json.load(open(res_path)) if os.path.exists(res_path) else {}
    for sid, out in results.items():
        if out.get("stale"):
            latest.setdefault(sid, {})["stale"] = True
        else:
            latest.setdefault(sid, {}).pop("stale", None)
            latest[sid].update(out)
    json.dump(latest, open(res_path, "w"), indent=1, sort_keys=True)


if __name__ == "__main__":
    if sys.argv[1] == "ingest":
        prop, outdir = sys.argv[2], sys.argv[3]
        ns = sys.argv[4:] or sorted(x for x in os.listdir(outdir) if x.isdigit())
        ingest(prop, outdir, ns)
    else:
        args = sys.argv[2:]
        checks = None
        if "--checks" in args:
            i = args.index("--checks")
            checks = args[i + 1].split(",")
            args = args[:i] + args[i + 2:]
        jobs = 1
        if "-j" in args:
            i = args.index("-j")
            jobs = int(args[i + 1])
            args = args[:i] + args[i + 2:]
        run(args, checks, jobs)
