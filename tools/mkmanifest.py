#!/venv/bin/python
"""Generate MANIFEST.json from the table below (kept valid against /root/.vp/MANIFEST.schema.json)."""
import json
import os
import subprocess

HERE = os.path.dirname(os.path.dirname(os.path.abspath(__file__)))

E1 = "bounded-exhaustive enumeration of the stated finite space on the real code, compared with an independent reference model"
E2 = "explicit-state breadth-first search over event histories replayed on the real objects, canonical-state dedup, invariant per state and per transition"
E3 = "exhaustive fault/crash enumeration: every byte cut and every failing/short write index on the real writer and readers"

CHECKS = {
    # id: (category, technique, text, note, design_ref)
}


def add(pid, cat, tech, text, note, ref):
    CHECKS[pid] = (cat, tech, text, note, ref)


add("C01", "exploration", E1 + " (obs-level identity of written vs read records, 4-7 channels)",
    "No record sequence of the enumerated S1..S5 space (every serialisable type x value alphabet, all lists <=2, pair products, "
    "metadata products, all shape sequences <=3 (4 thorough), wrapped atoms) is read back different in count, order, descriptor or "
    "any slot, judged on a deep observation that includes class, flavour, family, bit pattern and UTC offset. S6 adds long histories as "
    "generator literals (periodic patterns to 1030/4100 records, 260..4200 record types, one hot type between hundreds of incidental ones, an "
    "LRU sweep, a first record of 4 KiB..3 MiB, frames ending exactly around 4/8/64/128 KiB, 65 545 odd-length frames), S7 one instant in ten "
    "spellings; channels incl. a None-returning sink and two zstd files open at once.",
    "Values outside the alphabets; CPython 3.12 + msgpack in /venv; mc.obs as the notion of identity.", "DESIGN.md C01")

add("C02", "exploration", E1 + " (independent codec mc.refcodec in both directions, 8 wire variants, frozen golden corpus)",
    "Bytes written for every record sequence of the C01 space decode under an independent implementation of the published format "
    "(own msgpack subset, frames, ext-14 sub-types, recomputed descriptor hash) to exactly the records written; the same records "
    "encoded by the reference codec in 8 conforming variants (extra trailing reserved fields, no version field, bare-name "
    "identifier, non-minimal msgpack classes, repeated descriptor/header frames) and a golden corpus frozen at the pinned revision "
    "are read back as the records they encode.",
    "mc.refcodec is the trusted statement of the format; byte identity with the golden files is reported, not judged.", "DESIGN.md C02")
add("C03", "model_checking", E2 + " to a fixpoint of the descriptor-registry machine (binary and JSON packers, 1-3 writers); plus a TLA+ model checked by TLC whose every state-graph edge is replayed on the real writers (conformance as registry refinement)",
    "All reachable registry states of 1..2 (3 thorough) simultaneously open writers over a kind set with same-name, "
    "identifier-coinciding, nested-only and grouped-only types are visited to a fixpoint; on every transition the appended frames are "
    "decoded by the reference decoder and by the real reader and must carry the descriptor the record was created with; other "
    "writers' bytes must be untouched. A further leg runs the long histories of mc.streamspace (hot type, LRU sweep, many types, periodic, "
    "big first record) through one writer of each packer.",
    "Canonical state = writer registries + reference-reader registry (argument in DESIGN C03); kinds are a fixed finite set.", "DESIGN.md C03")
add("C04", "fault_enumeration", E3 + " (cuts of raw and gzip images judged against reference frame boundaries / zlib-available plaintext)",
    "For 5 streams (raw and gzip) every byte cut x 3 read paths, and every failing or short write-call index x accepted-byte count "
    "x {crash, close} on three real writer stacks: reading yields exactly the records whose frames are complete, unaltered, in order; "
    "cuts at frame boundaries end without an error.",
    "One injected fault per execution; gzip completeness relies on zlib.decompressobj as independent reference.", "DESIGN.md C04")

add("C07", "exploration", E1 + " (program grammar by size class x record alphabet; reference = CPython eval over a plain namespace, mc.refsel)",
    "Every program of the typed selector grammar up to size class 3 (4 thorough: ~43k / more programs) is evaluated on 9 records by the "
    "interpreted and the compiled engine and by CPython's own eval over a plain namespace with independent helpers and typed matcher; "
    "where all sub-expressions are defined the truth values must agree and neither engine may raise; programs outside the operator "
    "tables must be rejected or evaluated correctly; a list of unknown-name / disallowed-call programs must be rejected.",
    "mc.refsel pins the meaning of typed matchers and helpers (DESIGN C07); identity tests on literals and `Type.T not in X` are excluded as ambiguous.", "DESIGN.md C07")
add("C08", "exploration", E1 + " (the finite missing-field grammar is enumerated completely; heterogeneous streams through 7 read paths)",
    "All 8 operators x position of the missing operand x 22 kinds of other operand x 8 boolean contexts x 4 ways of building the "
    "selector: the comparison is False and nothing raises; helpers skip missing fields; every mixed-type record sequence up to length 4 "
    "filtered through stream reader, path reader, record_stream (1 and 2 files) and rdump (compiled and -n) yields exactly the records "
    "that have the field and satisfy the condition.",
    "`x in <non-container>` is excluded (TypeError for every x in Python); known compiled-engine findings listed in known_findings.json.", "DESIGN.md C08")
add("C09", "exploration", E1 + " (hostile call-target spellings x contexts on canary records, independent AST classifier as oracle)",
    "186 spellings of disallowed calls / dunder reads x 18 contexts (x18 again in thorough) on records holding instrumented canary "
    "objects: every program the classifier labels refused raises, with empty canary and builtin logs and no tripwire file; no program "
    "modifies the record.",
    "Canaries log explicit method calls only; operators, str()/repr() and iteration are allowed operations.", "DESIGN.md C09")
add("C10", "model_checking", E2 + " over matcher histories (state = selector object after a sequence of match calls) plus E1 adapter matrix",
    "For 100+ selectors and every match history up to length 3 (4 thorough) over 6 records, both engines: the last result equals a "
    "fresh selector's and the record is unchanged; for 8 reader configurations x all record sequences <=3 x 26 selectors x 3 ways of "
    "giving the selector, reading with the selector equals reading without and filtering afterwards, including where an exception occurs.",
    "Canonical matcher state = names bound in the matcher namespace; adapters restricted to fields they can carry.", "DESIGN.md C10")

add("C14", "exploration", E1 + " (JSON types x values x descriptors x indent x 5 channels; documents parsed by Python's json, values by an independent mapping)",
    "For every JSON-supported type (scalar and list) and value of the alphabets, pairs, and sequences over descriptors that share keys but "
    "change value kinds: the output is a sequence of standalone JSON documents with exactly the record's keys, every value equals the "
    "independently computed plain JSON value (base64, ISO timestamps, digest object), records read back obs-identical with descriptors on, "
    "and as the same scalar JSON values with descriptors off.",
    "Python's json module defines 'plain JSON'; indented output is checked as documents only (the reader is line based).", "DESIGN.md C14")
add("C18", "model_checking", E2 + " (all event histories to depth 5/6 x 4 batch sizes on the real SqliteWriter, independent observer connection after every event, liberal commit model)",
    "Every history over {write A, write B, write A+, write A-, flush, close} up to depth 5 (6 thorough) x batch sizes {1,2,3,1000}: after every "
    "event a second sqlite3 connection sees a prefix of the write order whose length is a legitimate commit point, cell for cell; after close "
    "everything is there; the final content is identical for all batch sizes; values and names alphabets round-trip through SqliteReader.",
    "Liberal commit model (DESIGN C18); SQLite stores NaN as NULL and -0.0 as 0.0 (judged by value).", "DESIGN.md C18")
add("C19", "exploration", E1 + " (mapped types x values, unmapped types, write histories with refused records; file read by fastavro directly and by AvroReader)",
    "Every Avro-mapped type x value alphabet, pairs, sequences, every unmapped type, out-of-range values and all write histories <=3 over "
    "{valid, refused value, other type}: accepted records are in the container as written (binary32 floats, UTC instants), the schema "
    "carries the descriptor, unmappable records are refused, and nothing in the file differs from an accepted record.",
    "fastavro.reader opened directly is the standard reader; out-of-range values may be refused or stored exactly.", "DESIGN.md C19")
add("C20", "exploration", E1 + " (all types x cell alphabet x option sets on the CSV, line and text writers; recovery by Python's csv module and a block parser)",
    "Every whitelisted type and value, a cell alphabet of delimiters/quotes/line breaks/unicode/undecodable bytes, sequences that switch "
    "descriptors, x field/exclude/line-terminator/verbose/format-spec options: no writer raises, csv.reader recovers header rows and cells "
    "exactly, line blocks are numbered and hold one 'name = value' line per selected field, text output equals the record's representation "
    "or the applied template; CSV files over 4 delimiters x header shapes read back with normalised names and the same text.",
    "text form = str(value); non-default option sets are applied to cell/sequence cases and a quarter of the value cases.", "DESIGN.md C20")

add("C17", "model_checking", E2 + " over writer life cycles (15 writer configurations) plus exhaustive split arithmetic and rotation sequences under a scripted clock",
    "All histories up to depth 4 (5 thorough) over {write r1, write r2, flush, close, with-exit, with-exit-on-error, close again, del} on 15 "
    "writer configurations: at every closed state the matching reader and an independent tool (own codec after gzip/bz2/lz4/zstd, json, "
    "fastavro, sqlite3, csv) find exactly the records written, empty outputs are valid, a second close or del alters nothing; all N x limit "
    "x suffix x target x closing split combinations and all timestamp sequences <=5 over 3 buckets x pre-existing file x clock answers keep "
    "every record exactly once in the right file.",
    "Writes after close are outside the alphabet; the clock inside flow.record.stream is scripted from the harness.", "DESIGN.md C17")

add("C11", "exploration", E1 + " (full codec x container x naming x sequence matrix, junk-input enumeration, interleaved readers)",
    "All 6 codec spellings x 4 containers x 7 ways of naming the source x 4 record sequences: the file starts with the codec magic and an "
    "independent decompressor plus independent container decoder recover the records; every way of naming yields the same records through "
    "the right reader class; two sources of one codec read alternately do not disturb each other; ~80 non-stream byte strings (magics "
    "alone, every header prefix, displaced magic, compressed garbage, text) are refused through file object, stdin and neutral path.",
    "gzip/bz2 from the stdlib and the lz4/zstandard bindings called directly are the standard decompressors.", "DESIGN.md C11")
add("C13", "exploration", E1 + " executed in 18 worker processes (FLOW_RECORD_TZ x TZ) whose written bytes and read values are compared with each other",
    "18 instants (year 1, pre-1970, epoch, DST gap and folds, year 9999, seeded) x 12 tzinfo kinds with fold 0/1 x up to 8 input forms x 4 "
    "storage formats: values are aware, naive means UTC, the instant computed from the input's own utcoffset() and the offset survive "
    "construction and storage (UTC for Avro); stored bytes, cells and read values are identical in all 18 environments; str() denotes the "
    "same instant.",
    "Instants are computed independently from wall clock minus utcoffset; sub-second offsets are not enumerated.", "DESIGN.md C13")

add("C15", "exploration", E1 + " against ordered-dict reference models of merge/extend, timestamp expansion, grouped view, projections and the field rewriter",
    "All ordered pairs (and triples over a smaller pool) of records over descriptors built from an overlapping field-name pool x replace x "
    "rename, cold and warm caches; all descriptors of 0..4 fields over {ts, ts_description, a, d1, d2} x {datetime, string} in every order; "
    "all groups of 1..3 (and nested) over 4 overlapping descriptors; all field subsets for _replace / init_from_dict / init_from_record / "
    "extend / _asdict; every ordered fields list x exclude set for the rewriter over descriptor sequences that share a type name: results "
    "equal the models, originals are never modified.",
    "Expected records are built through the public constructor from the model's (name, fields, values).", "DESIGN.md C15")

add("C12", "exploration", E1 + " (all ordered value pairs per type, descriptor variants, nested/grouped wrappers, 8 ignore configurations given 3 ways) plus "
    + "explicit-state search of the scoped ignore-configuration machine",
    "For every field type (scalar and list) all ordered pairs of alphabet values as records (one rebuilt with a fresh descriptor after "
    "clearing the class caches), six descriptor variants, nested and grouped wrappers, metadata variations, under all 8 ignored-field "
    "sets given by setter, context manager and environment: == is reflexive, symmetric, equals the reference, != is its negation, "
    "nothing raises, equal records hash equally and work as set/dict members; every well-nested history of set/enter/exit/exit-by-error "
    "up to depth 5 (6) restores the configuration.",
    "Reference equality by documented content of each field type; NaN is unequal to NaN.", "DESIGN.md C12")

add("C05", "model_checking", E2 + " over assignment histories per field type with construct / _replace / init_from_dict / grouped / decode probes after every step",
    "For every field type: all histories of assignments (scalar, list, list with an already-typed head) up to length 2 (3 thorough) over "
    "valid, boundary, just-outside, wrong-kind and already-typed candidates: every slot holds None, the empty default or an instance of "
    "the declared class (elements too), timestamps are aware, text is str; a raising operation leaves the record unchanged; every "
    "accepting one leaves it serialisable and decodable; the unrepresentable values the statement names are rejected through every door, "
    "also after a history; keyword-named fields (slow generated class) included.",
    "For wrong-kind candidates only the invariant is demanded; the must-reject table lists only what the statement names.", "DESIGN.md C05")

add("C06", "exploration", E1 + " (all strings up to length 3/4 over a 16-character alphabet as type and field names, affixes over all control characters, "
    + "payload lists, type strings; 5 delivery doors; recogniser + AST allow-list on every generated source)",
    "Every string of length 0..3 (4 thorough) over an alphabet with ASCII, separators, newline, NUL, non-ASCII letter/digit/look-alike, every "
    "valid-stem affix over all control characters, ~150 hostile payloads / keywords / template identifiers / long names, ~110 field-type "
    "strings and identifier-colliding twin definitions, delivered through constructor, crafted descriptor frame, JSON descriptor line and "
    "two kinds of Avro schema: whatever the hand-written recogniser rejects is rejected by every door; accepted classes have exactly the "
    "declared slots + metadata, neutral metadata and whitelisted field classes; every source handed to exec matches the template's AST "
    "shape; no module outside the field-type packages is imported; no tripwire fires.",
    "Rejection = any exception; refusing a well-formed name (keywords as type names) is counted, not judged.", "DESIGN.md C06")

add("C16", "fault_enumeration", E3 + " applied to rdump's source list (every placement of up to 1/2 bad sources among good ones) x the option product, in-process rdump.main",
    "skip x count x 6 selectors x {compiled, -n} x every source list of length 1..2 (3 thorough) over 5 good inputs (two type versions, nested "
    "records, JSON, empty, compressed under a neutral name) with every placement of up to 1 (2) of 12 bad sources (missing, zero-byte, "
    "garbage plain/gz/bz2/lz4/zst, torn mid-frame, cut at a boundary, torn gzip, gzip damaged in body/head): the output stream equals the "
    "reference pipeline (intact prefixes -> reference selector -> slice); field/exclude lists x metadata overrides x --multi-timestamp x "
    "13 writer kinds decode, each with its own independent parser, to the records of the reference projection/expansion models.",
    "--count 0 means no limit; the intact prefix of a source with a damaged compressed body is undefined (only later sources judged).", "DESIGN.md C16")


# what the later rounds added (DESIGN.md section 6); appended to the claim text of each check
EXTRA = {
    "C01": " Channels added later: records that were read are written and read again, pathlib/stream()/record_stream() helper doors, a reader consumed in two goes; descriptors born through extend/clone/string definition/_unpack/merge, alias-spelled twins, field-less and generator-built grouped shapes.",
    "C02": " 11 wire variants (also names as msgpack bin, bare names with repeated announcements), registries of 255..1025 (70 000 thorough) types, resumed reading.",
    "C03": " Further machines: derived descriptors, field-less types, generator-built groups, warnings-as-errors; resumed reading by both readers. A TLA+ model of the announcement protocol (tla/DescriptorProtocol.tla) is checked by TLC and EVERY edge of its state graph is replayed on real writers (registry refinement).",
    "C04": " Plus a stream with one 70 kB frame (cuts of its gzip image, write faults on it).",
    "C05": " Plus typed values and typed list objects of other field types, every constructor the datetime type inherits, a value oracle for the named conversions, and child interpreters under FLOW_RECORD_TZ / FLOW_RECORD_IGNORE.",
    "C06": " Plus string-only definitions through constructor / nil-fields frame / null-fields JSON line, the clone constructor, valid prefixes of 63..65 536 characters, field-less definitions, keyword-named fields next to invalid ones.",
    "C07": " Plus falsy-valued fields in helpers, literal lists of 2..65 constants, the helper x option x letter-case product, and every dotted constructor evaluated first thing in a fresh interpreter with one engine only.",
    "C08": " Plus chains of 3 and 4 links, legacy constructors as the other operand, grouped records in the heterogeneous streams.",
    "C09": " Plus one Selector object reused over records (twice), generator variables named like every namespace name, NFKC spellings of dunders/builtins, names containing 'NoneType', helper x option purity programs.",
    "C10": " Plus selector pairs on one record object, 130 (300) repetitions of one selector on one and on alternating records, concatenated sources, the selector inside the URI query, a same-names-other-types record.",
    "C11": " Plus scheme+file-object and scheme+stdin namings, clobber=False writing, two interleaved writers per codec.",
    "C12": " Plus equal instants under several offsets, nested records differing in an ignored field, dict key order, scopes made before they are entered, BaseException exits, eight argument forms, child interpreters under FLOW_RECORD_IGNORE.",
    "C13": " Plus all values through ONE writer per format, every ordered pair of values sharing a ZoneInfo object, the doors a timestamp enters a record through (constructor, list, assignment, grouped assignment, _generated), Avro files with plain-long microseconds.",
    "C14": " Plus documents beyond 128 KiB, grouped records, output to standard output closed with and without flush, reserved keys of descriptor-less lines.",
    "C15": " Plus one-shot iterables, falsy replacement values, copy independence, grouped members sharing field names, the rewriter's expression over histories with raising records.",
    "C16": " Plus generator selectors that stop early and selectors true without the field.",
    "C17": " Plus SQLite batch sizes 2/3, RecordArchiver and archive:// doors, offset timestamps, a .zst template.",
    "C18": " Plus a same-size type evolution (A~), refused table creation mid-batch, debug logging switched on, long values.",
    "C19": " Plus flush-first / flush-between / bare-close / mid-flush closings, the stdout door, grouped records, child interpreters under TZ.",
    "C20": " Plus refused CSV writes, templates mixing escapes and non-ASCII text, the headerless CSV door, selections that leave nothing.",
}

NOT_BUILT = "check not built yet in this round (design in DESIGN.md section 3); not claimed until it runs"


def main():
    props = [json.loads(l)["id"] for l in open(os.path.join(HERE, "properties.jsonl"))]
    try:
        commits = subprocess.run(["git", "-C", "/repo", "log", "--format=%h %s"], capture_output=True, text=True).stdout.splitlines()
    except Exception:  # noqa: BLE001
        commits = []
    hook_commits = [c.split()[0] for c in commits if c.split(" ", 1)[1].startswith("verif-hook:")]
    fix_commits = [c for c in commits if c.split(" ", 1)[1].startswith("fix:")]
    man = {
        "version": 1,
        "setup_cmd": "/venv/bin/python -m compileall -q mc checks tools && ./check --selftest",
        "hooks": {
            "guard": "FLOW_RECORD_VERIF",
            "enable": "no instrumentation is compiled into /repo; ./check exports FLOW_RECORD_VERIF=1 and imports /repo's working tree through PYTHONPATH, shadowing module-level names (exec, datetime, sys.stdin/stdout) from the harness",
            "baseline_off_cmd": "cd /repo && /venv/bin/python -m pytest -ra -q -p no:cacheprovider --timeout=900 --continue-on-collection-errors",
            "source_commits": hook_commits,
            "add_only": True,
        },
        "engines": [
            {"name": "E1-space", "path": "mc/space.py", "kind_free_text": E1, "serves_properties": []},
            {"name": "E2-bfs", "path": "mc/bfs.py", "kind_free_text": E2, "serves_properties": []},
            {"name": "E3-faults", "path": "mc/faults.py", "kind_free_text": E3, "serves_properties": []},
        ],
        "checks": [],
        "notes": "fix commits in /repo: " + ("; ".join(fix_commits) or "none") + ". known findings: known_findings.json. Mutation results: MUTATIONS.md.",
        "not_applicable": [],
    }
    for pid in props:
        if pid in CHECKS and os.path.exists(os.path.join(HERE, "checks", pid.lower() + ".py")):
            cat, tech, text, note, ref = CHECKS[pid]
            text = text + EXTRA.get(pid, "")
            man["checks"].append({
                "property_id": pid,
                "quick_cmd": "./check %s --tier quick" % pid,
                "thorough_cmd": "./check %s --tier thorough" % pid,
                "evidence_file": "evidence/%s.json" % pid,
                "replay_cmd_template": "./check %s --replay {path}" % pid,
                "engine": "E2-bfs" if cat == "model_checking" else ("E3-faults" if cat == "fault_enumeration" else "E1-space"),
                "level_claimed": {"category": cat, "text": text, "design_ref": ref},
                "level_note": note,
                "technique": tech,
            })
            for e in man["engines"]:
                if e["name"] == man["checks"][-1]["engine"]:
                    e["serves_properties"].append(pid)
        else:
            man["not_applicable"].append({"property_id": pid, "reason": NOT_BUILT})
    with open(os.path.join(HERE, "MANIFEST.json"), "w") as f:
        json.dump(man, f, indent=1)
    import sys
    sys.path.insert(0, HERE)
    from mc.report import validate_json

    err = validate_json(os.path.join(HERE, "MANIFEST.json"), "/root/.vp/MANIFEST.schema.json")
    assert not err, err
    print("MANIFEST.json: %d checks, %d not claimed" % (len(man["checks"]), len(man["not_applicable"])))


if __name__ == "__main__":
    main()
