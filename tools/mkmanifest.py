#!/venv/bin/python
"""Generate MANIFEST.json from the table below (kept valid against /root/.vp/MANIFEST.schema.json)."""
import json
import os
import subprocess

HERE = os.path.dirname(os.path.dirname(os.path.abspath(__file__)))

E1 = "bounded-exhaustive enumeration of the stated finite space on the real code, compared with an independent reference model"
E2 = "explicit-state breadth-first search over event histories replayed on the real objects, canonical-state dedup, invariant per state and per transition"
E3 = "exhaustive fault/crash enumeration: every byte cut and every failing/short write index on the real writer and readers"

CHECKS = {
    # id: (category, technique, text, note, design_ref)
}


def add(pid, cat, tech, text, note, ref):
    CHECKS[pid] = (cat, tech, text, note, ref)


add("C01", "exploration", E1 + " (obs-level identity of written vs read records, 4-7 channels)",
    "No record sequence of the enumerated S1..S5 space (every serialisable type x value alphabet, all lists <=2, pair products, "
    "metadata products, all shape sequences <=3 (4 thorough), wrapped atoms) is read back different in count, order, descriptor or "
    "any slot, judged on a deep observation that includes class, flavour, family, bit pattern and UTC offset.",
    "Values outside the alphabets; CPython 3.12 + msgpack in /venv; mc.obs as the notion of identity.", "DESIGN.md C01")

add("C02", "exploration", E1 + " (independent codec mc.refcodec in both directions, 8 wire variants, frozen golden corpus)",
    "Bytes written for every record sequence of the C01 space decode under an independent implementation of the published format "
    "(own msgpack subset, frames, ext-14 sub-types, recomputed descriptor hash) to exactly the records written; the same records "
    "encoded by the reference codec in 8 conforming variants (extra trailing reserved fields, no version field, bare-name "
    "identifier, non-minimal msgpack classes, repeated descriptor/header frames) and a golden corpus frozen at the pinned revision "
    "are read back as the records they encode.",
    "mc.refcodec is the trusted statement of the format; byte identity with the golden files is reported, not judged.", "DESIGN.md C02")
add("C03", "model_checking", E2 + " to a fixpoint of the descriptor-registry machine (binary and JSON packers, 1-3 writers)",
    "All reachable registry states of 1..2 (3 thorough) simultaneously open writers over a kind set with same-name, "
    "identifier-coinciding, nested-only and grouped-only types are visited to a fixpoint; on every transition the appended frames are "
    "decoded by the reference decoder and by the real reader and must carry the descriptor the record was created with; other "
    "writers' bytes must be untouched.",
    "Canonical state = writer registries + reference-reader registry (argument in DESIGN C03); kinds are a fixed finite set.", "DESIGN.md C03")
add("C04", "fault_enumeration", E3 + " (cuts of raw and gzip images judged against reference frame boundaries / zlib-available plaintext)",
    "For 5 streams (raw and gzip) every byte cut x 3 read paths, and every failing or short write-call index x accepted-byte count "
    "x {crash, close} on three real writer stacks: reading yields exactly the records whose frames are complete, unaltered, in order; "
    "cuts at frame boundaries end without an error.",
    "One injected fault per execution; gzip completeness relies on zlib.decompressobj as independent reference.", "DESIGN.md C04")

NOT_BUILT = "check not built yet in this round (design in DESIGN.md section 3); not claimed until it runs"


def main():
    props = [json.loads(l)["id"] for l in open(os.path.join(HERE, "properties.jsonl"))]
    try:
        commits = subprocess.run(["git", "-C", "/repo", "log", "--format=%h %s"], capture_output=True, text=True).stdout.splitlines()
    except Exception:  # noqa: BLE001
        commits = []
    hook_commits = [c.split()[0] for c in commits if c.split(" ", 1)[1].startswith("verif-hook:")]
    fix_commits = [c for c in commits if c.split(" ", 1)[1].startswith("fix:")]
    man = {
        "version": 1,
        "setup_cmd": "/venv/bin/python -m compileall -q mc checks tools && ./check --selftest",
        "hooks": {
            "guard": "FLOW_RECORD_VERIF",
            "enable": "no instrumentation is compiled into /repo; ./check exports FLOW_RECORD_VERIF=1 and imports /repo's working tree through PYTHONPATH, shadowing module-level names (exec, datetime, sys.stdin/stdout) from the harness",
            "baseline_off_cmd": "cd /repo && /venv/bin/python -m pytest -ra -q -p no:cacheprovider --timeout=900 --continue-on-collection-errors",
            "source_commits": hook_commits,
            "add_only": True,
        },
        "engines": [
            {"name": "E1-space", "path": "mc/space.py", "kind_free_text": E1, "serves_properties": []},
            {"name": "E2-bfs", "path": "mc/bfs.py", "kind_free_text": E2, "serves_properties": []},
            {"name": "E3-faults", "path": "mc/faults.py", "kind_free_text": E3, "serves_properties": []},
        ],
        "checks": [],
        "notes": "fix commits in /repo: " + ("; ".join(fix_commits) or "none") + ". known findings: known_findings.json. Mutation results: MUTATIONS.md.",
        "not_applicable": [],
    }
    for pid in props:
        if pid in CHECKS and os.path.exists(os.path.join(HERE, "checks", pid.lower() + ".py")):
            cat, tech, text, note, ref = CHECKS[pid]
            man["checks"].append({
                "property_id": pid,
                "quick_cmd": "./check %s --tier quick" % pid,
                "thorough_cmd": "./check %s --tier thorough" % pid,
                "evidence_file": "evidence/%s.json" % pid,
                "replay_cmd_template": "./check %s --replay {path}" % pid,
                "engine": "E2-bfs" if cat == "model_checking" else ("E3-faults" if cat == "fault_enumeration" else "E1-space"),
                "level_claimed": {"category": cat, "text": text, "design_ref": ref},
                "level_note": note,
                "technique": tech,
            })
            for e in man["engines"]:
                if e["name"] == man["checks"][-1]["engine"]:
                    e["serves_properties"].append(pid)
        else:
            man["not_applicable"].append({"property_id": pid, "reason": NOT_BUILT})
    with open(os.path.join(HERE, "MANIFEST.json"), "w") as f:
        json.dump(man, f, indent=1)
    import sys
    sys.path.insert(0, HERE)
    from mc.report import validate_json

    err = validate_json(os.path.join(HERE, "MANIFEST.json"), "/root/.vp/MANIFEST.schema.json")
    assert not err, err
    print("MANIFEST.json: %d checks, %d not claimed" % (len(man["checks"]), len(man["not_applicable"])))


if __name__ == "__main__":
    main()
